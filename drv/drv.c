/* mpir_drv: command interpreter linked against one build variant of libmpir.a.
   Line protocol on stdin/stdout, see lib/rpc.py.  Monitors: recording
   allocator, allocator-bypass detector, object well-formedness, input
   immutability, fenced caller buffers, crash capture.  */
#include <stdio.h>
#include <stdlib.h>
#include <string.h>
#include <stdarg.h>
#include <stddef.h>
#include <stdint.h>
#include <signal.h>
#include <unistd.h>
#include <errno.h>
#include <math.h>
#include <pthread.h>
#include <sys/mman.h>
#include <obstack.h>
#include "mpir.h"
#include "gmp-impl.h"

#if defined(__SANITIZE_ADDRESS__)
#include <sanitizer/asan_interface.h>
#define HAVE_ASAN 1
#else
#define HAVE_ASAN 0
#endif

#ifndef VARIANT
#define VARIANT "?"
#endif

/* ---------------------------------------------------------------- output */
typedef struct outbuf { char *p; size_t n, cap; } outbuf;

static void ob_need (outbuf *o, size_t k);
static void ob_printf (outbuf *o, const char *fmt, ...) __attribute__((format(printf,2,3)));

void *__real_malloc (size_t);
void *__real_realloc (void *, size_t);
void *__real_calloc (size_t, size_t);
void __real_free (void *);

static void ob_need (outbuf *o, size_t k)
{
  if (o->n + k + 1 > o->cap)
    {
      size_t c = o->cap ? o->cap : (1 << 16);
      while (o->n + k + 1 > c) c *= 2;
      o->p = __real_realloc (o->p, c);
      if (!o->p) { fprintf (stderr, "drv: out of memory\n"); _exit (3); }
      o->cap = c;
    }
}
static void ob_printf (outbuf *o, const char *fmt, ...)
{
  va_list ap; int k;
  ob_need (o, 256);
  va_start (ap, fmt);
  k = vsnprintf (o->p + o->n, o->cap - o->n, fmt, ap);
  va_end (ap);
  if ((size_t) k >= o->cap - o->n)
    {
      ob_need (o, k + 1);
      va_start (ap, fmt);
      vsnprintf (o->p + o->n, o->cap - o->n, fmt, ap);
      va_end (ap);
    }
  o->n += k;
}
static void ob_putc (outbuf *o, char c) { ob_need (o, 1); o->p[o->n++] = c; }
static void ob_write (outbuf *o, const char *s, size_t k) { ob_need (o, k); memcpy (o->p + o->n, s, k); o->n += k; }
static void ob_flush_fd (outbuf *o, int fd)
{
  size_t off = 0;
  while (off < o->n)
    {
      ssize_t w = write (fd, o->p + off, o->n - off);
      if (w < 0) { if (errno == EINTR) continue; _exit (4); }
      off += w;
    }
  o->n = 0;
}

/* ---------------------------------------------------------------- monitors: allocator */
typedef struct rec_ent { void *p; size_t n; } rec_ent;
typedef struct recorder {
  rec_ent *tab; size_t cap, used, tomb;
  unsigned long nalloc, nrealloc, nfree, live, live_bytes, peak_bytes, viol, max_req;
  outbuf msgs;         /* pending monitor messages for the current command */
} recorder;

static recorder main_rec;
static __thread recorder *rec = &main_rec;
static __thread volatile int in_lib = 0;     /* inside a library call */
static __thread volatile int in_rec = 0;     /* inside the recording allocator */
static unsigned long bypass_events = 0;
static int custom_installed = 0;
static size_t alloc_limit = 0;               /* refuse (abort-like) giant requests: 0 = none */

#define TOMB ((void *) 1)
static void monitor_msg (const char *fmt, ...) __attribute__((format(printf,1,2)));
static void monitor_msg (const char *fmt, ...)
{
  va_list ap; char b[512];
  va_start (ap, fmt); vsnprintf (b, sizeof b, fmt, ap); va_end (ap);
  rec->viol++;
  if (rec->msgs.n < 4096) ob_printf (&rec->msgs, " !%s", b);
}

static size_t rec_hash (void *p, size_t cap) { return (((uintptr_t) p >> 4) * 0x9E3779B97F4A7C15ull) >> 20 & (cap - 1); }
static void rec_grow (recorder *r)
{
  size_t ocap = r->cap, i; rec_ent *ot = r->tab;
  r->cap = ocap ? ocap * 2 : 4096;
  r->tab = __real_calloc (r->cap, sizeof (rec_ent));
  r->used = r->tomb = 0;
  for (i = 0; i < ocap; i++)
    if (ot[i].p && ot[i].p != TOMB)
      {
        size_t h = rec_hash (ot[i].p, r->cap);
        while (r->tab[h].p) h = (h + 1) & (r->cap - 1);
        r->tab[h] = ot[i]; r->used++;
      }
  __real_free (ot);
}
static void rec_put (recorder *r, void *p, size_t n)
{
  size_t h;
  if ((r->used + r->tomb + 1) * 2 > r->cap) rec_grow (r);
  h = rec_hash (p, r->cap);
  while (r->tab[h].p && r->tab[h].p != TOMB) h = (h + 1) & (r->cap - 1);
  if (r->tab[h].p == TOMB) r->tomb--;
  r->tab[h].p = p; r->tab[h].n = n; r->used++;
  r->live++; r->live_bytes += n; if (r->live_bytes > r->peak_bytes) r->peak_bytes = r->live_bytes;
}
static rec_ent *rec_find (recorder *r, void *p)
{
  size_t h;
  if (!r->cap) return NULL;
  h = rec_hash (p, r->cap);
  while (r->tab[h].p)
    {
      if (r->tab[h].p == p) return &r->tab[h];
      h = (h + 1) & (r->cap - 1);
    }
  return NULL;
}
static void rec_del (recorder *r, rec_ent *e)
{
  r->live--; r->live_bytes -= e->n;
  e->p = TOMB; r->used--; r->tomb++;
}

static void too_big (size_t n)
{
  /* the library asked for more than the harness permits: report like an abort */
  fprintf (stderr, "drv: allocation request of %zu bytes exceeds limit\n", n);
  fflush (stderr);
  abort ();
}

static void *r_alloc (size_t n)
{
  void *p;
  in_rec++;
  if (n > rec->max_req) rec->max_req = n;
  if (alloc_limit && n > alloc_limit) too_big (n);
  if (n == 0) monitor_msg ("REC:alloc-size-0");
  p = __real_malloc (n);
  if (!p) { fprintf (stderr, "drv: malloc(%zu) failed\n", n); abort (); }
  rec_put (rec, p, n); rec->nalloc++;
  in_rec--;
  return p;
}
static void *r_realloc (void *o, size_t on, size_t nn)
{
  void *p; rec_ent *e;
  in_rec++;
  if (nn > rec->max_req) rec->max_req = nn;
  if (alloc_limit && nn > alloc_limit) too_big (nn);
  e = rec_find (rec, o);
  if (!e) { monitor_msg ("REC:realloc-unknown-pointer(old=%zu,new=%zu)", on, nn); p = __real_malloc (nn); }
  else
    {
      if (e->n != on) monitor_msg ("REC:realloc-wrong-old-size(recorded=%zu,passed=%zu,new=%zu)", e->n, on, nn);
      rec_del (rec, e);
      /* fresh block every time so stale pointers are caught by ASan */
      p = __real_malloc (nn);
      if (!p) { fprintf (stderr, "drv: malloc(%zu) failed\n", nn); abort (); }
      memcpy (p, o, on < nn ? (e->n < on ? e->n : on) : nn);
      __real_free (o);
    }
  if (nn == 0) monitor_msg ("REC:realloc-size-0");
  rec_put (rec, p, nn); rec->nrealloc++;
  in_rec--;
  return p;
}
static void r_free (void *o, size_t n)
{
  rec_ent *e;
  in_rec++;
  e = rec_find (rec, o);
  if (!e) monitor_msg ("REC:free-unknown-pointer(size=%zu)", n);
  else
    {
      if (e->n != n) monitor_msg ("REC:free-wrong-size(recorded=%zu,passed=%zu)", e->n, n);
      rec_del (rec, e);
      __real_free (o);
    }
  rec->nfree++;
  in_rec--;
}

/* bypass detector: references to malloc & co. from statically linked objects */
void *__wrap_malloc (size_t n)
{
  if (in_lib && !in_rec && custom_installed) { __atomic_fetch_add (&bypass_events, 1, __ATOMIC_RELAXED); monitor_msg ("BYPASS:malloc(%zu)", n); }
  return __real_malloc (n);
}
void *__wrap_calloc (size_t a, size_t b)
{
  if (in_lib && !in_rec && custom_installed) { __atomic_fetch_add (&bypass_events, 1, __ATOMIC_RELAXED); monitor_msg ("BYPASS:calloc"); }
  return __real_calloc (a, b);
}
void *__wrap_realloc (void *p, size_t n)
{
  if (in_lib && !in_rec && custom_installed) { __atomic_fetch_add (&bypass_events, 1, __ATOMIC_RELAXED); monitor_msg ("BYPASS:realloc(%zu)", n); }
  return __real_realloc (p, n);
}
void __wrap_free (void *p)
{
  if (in_lib && !in_rec && custom_installed) { __atomic_fetch_add (&bypass_events, 1, __ATOMIC_RELAXED); monitor_msg ("BYPASS:free"); }
  __real_free (p);
}

/* ---------------------------------------------------------------- hook receivers (MPIR_VERIF) */
#define NHOOK 512
unsigned long __mpir_verif_hits[NHOOK];
void __mpir_verif_hit (int id) { if ((unsigned) id < NHOOK) __atomic_fetch_add (&__mpir_verif_hits[id], 1, __ATOMIC_RELAXED); }
#define NEVT 4096
typedef struct { int id; long a, b, c, d; } evt_t;
static __thread evt_t *evts; static __thread int nevts;
void __mpir_verif_evt (int id, long a, long b, long c, long d)
{
  int i;
  if (!evts) { in_rec++; evts = __real_calloc (NEVT, sizeof (evt_t)); in_rec--; }
  for (i = 0; i < nevts; i++)
    if (evts[i].id == id && evts[i].a == a && evts[i].b == b && evts[i].c == c && evts[i].d == d) return;
  if (nevts < NEVT) { evts[nevts].id = id; evts[nevts].a = a; evts[nevts].b = b; evts[nevts].c = c; evts[nevts].d = d; nevts++; }
}
static int yield_mask = 0; static __thread unsigned long long yield_rng = 88172645463325252ull;
void __mpir_verif_point (int id)
{
  (void) id;
  if (yield_mask)
    {
      yield_rng ^= yield_rng << 13; yield_rng ^= yield_rng >> 7; yield_rng ^= yield_rng << 17;
      if ((yield_rng & yield_mask) == 0) sched_yield ();
    }
}

/* ---------------------------------------------------------------- pools */
#define NZ 64
#define NQ 32
#define NF 32
#define NR 8
#define NL 16
#define NB 4

typedef struct lbuf { char *map; size_t maplen; mp_limb_t *p; size_t n; int fence_lo; } lbuf;
typedef struct cbuf { char *map; size_t maplen; char *p; size_t n; } cbuf;

typedef struct ctx {
  mpz_t Z[NZ]; mpq_t Q[NQ]; mpf_t F[NF]; gmp_randstate_t R[NR]; int Rinit[NR];
  lbuf L[NL]; cbuf B[NB];
  long slots[8];
  outbuf out;
  unsigned long cmdno;
  const char *curcmd;
} ctx;

static ctx main_ctx;
static __thread ctx *cur_ctx = &main_ctx;
static long pagesz;
static void exec_line (ctx *c, char *line);

static void ctx_init (ctx *c)
{
  int i;
  memset (c->Rinit, 0, sizeof c->Rinit);
  for (i = 0; i < NZ; i++) mpz_init (c->Z[i]);
  for (i = 0; i < NQ; i++) mpq_init (c->Q[i]);
  for (i = 0; i < NF; i++) mpf_init2 (c->F[i], 64);
}
static unsigned long ctx_clear (ctx *c)
{
  int i;
  for (i = 0; i < NZ; i++) mpz_clear (c->Z[i]);
  for (i = 0; i < NQ; i++) mpq_clear (c->Q[i]);
  for (i = 0; i < NF; i++) mpf_clear (c->F[i]);
  for (i = 0; i < NR; i++) if (c->Rinit[i]) { gmp_randclear (c->R[i]); c->Rinit[i] = 0; }
  return rec->live;
}

/* fenced buffers: usable region ends exactly at a PROT_NONE page (fence_lo:
   starts exactly after one) */
static void *fence_map (char **map, size_t *maplen, size_t bytes, int fence_lo)
{
  size_t need = ((bytes + pagesz - 1) / pagesz + 2) * pagesz;
  char *p;
  if (*map && *maplen >= need)
    {
#if HAVE_ASAN
      __asan_unpoison_memory_region (*map, *maplen);
#endif
      mprotect (*map, *maplen, PROT_READ | PROT_WRITE);
    }
  else
    {
      if (*map)
        {
#if HAVE_ASAN
          __asan_unpoison_memory_region (*map, *maplen);
#endif
          munmap (*map, *maplen);
        }
      *map = mmap (NULL, need, PROT_READ | PROT_WRITE, MAP_PRIVATE | MAP_ANONYMOUS, -1, 0);
      if (*map == MAP_FAILED) { fprintf (stderr, "drv: mmap failed\n"); _exit (3); }
      *maplen = need;
#if HAVE_ASAN
      __asan_unpoison_memory_region (*map, *maplen);
#endif
    }
  memset (*map, 0xC3, *maplen);
  if (fence_lo)
    {
      mprotect (*map, pagesz, PROT_NONE);
      p = *map + pagesz;
#if HAVE_ASAN
      __asan_poison_memory_region (p + ((bytes + 7) & ~7ul), *maplen - pagesz - ((bytes + 7) & ~7ul));
#endif
    }
  else
    {
      mprotect (*map + *maplen - pagesz, pagesz, PROT_NONE);
      p = *map + *maplen - pagesz - bytes;
#if HAVE_ASAN
      __asan_poison_memory_region (*map, ((size_t) (p - *map)) & ~7ul);
#endif
    }
  return p;
}
#define CANARY 0xC3C3C3C3C3C3C3C3ul
static void lbuf_set (lbuf *b, size_t n, int fence_lo)
{
  b->p = fence_map (&b->map, &b->maplen, n * sizeof (mp_limb_t), fence_lo);
  b->n = n; b->fence_lo = fence_lo;
}
static int lbuf_canary_ok (lbuf *b)
{
  /* the 4 limbs on the unfenced side must still hold the fill pattern */
  int i; mp_limb_t *q;
  if (!b->p) return 1;
#if HAVE_ASAN
  return 1;  /* that side is ASan-poisoned instead */
#endif
  q = b->fence_lo ? b->p + b->n : b->p - 4;
  for (i = 0; i < 4; i++) if (q[i] != CANARY) return 0;
  return 1;
}

/* ---------------------------------------------------------------- hex transport (own code, not the library's) */
static int hexval (int c) { return c >= '0' && c <= '9' ? c - '0' : c >= 'a' && c <= 'f' ? c - 'a' + 10 : c >= 'A' && c <= 'F' ? c - 'A' + 10 : -1; }
/* parse magnitude hex digits s[0..len) into limbs; returns normalised count */
static size_t hex2limbs (const char *s, size_t len, mp_limb_t *out, size_t nmax)
{
  size_t n = 0; size_t i = len;
  while (i > 0 && n < nmax)
    {
      mp_limb_t l = 0; int sh = 0;
      while (i > 0 && sh < 64) { int v = hexval (s[--i]); if (v < 0) v = 0; l |= (mp_limb_t) v << sh; sh += 4; }
      out[n++] = l;
    }
  while (n > 0 && out[n - 1] == 0) n--;
  return n;
}
static void limbs2hex (outbuf *o, const mp_limb_t *p, size_t n)
{
  size_t i; char b[20];
  while (n > 0 && p[n - 1] == 0) n--;
  if (n == 0) { ob_putc (o, '0'); return; }
  ob_need (o, 16 * n + 2);
  ob_printf (o, "%lx", (unsigned long) p[n - 1]);
  for (i = n - 1; i-- > 0;)
    {
      static const char hx[] = "0123456789abcdef"; mp_limb_t l = p[i]; int k;
      for (k = 15; k >= 0; k--) { b[k] = hx[l & 15]; l >>= 4; }
      ob_write (o, b, 16);
    }
}
static void set_z_hex (mpz_ptr z, const char *s)
{
  int neg = 0; size_t len, n;
  if (*s == '-') { neg = 1; s++; }
  len = strlen (s);
  n = (len + 15) / 16; if (n == 0) n = 1;
  if ((size_t) ALLOC (z) < n) _mpz_realloc (z, n);
  n = hex2limbs (s, len, PTR (z), n);
  SIZ (z) = neg ? -(mp_size_t) n : (mp_size_t) n;
}
static void put_z (outbuf *o, mpz_srcptr z)
{
  if (SIZ (z) < 0) ob_putc (o, '-');
  limbs2hex (o, PTR (z), ABSIZ (z));
}
static void put_q (outbuf *o, mpq_srcptr q) { put_z (o, mpq_numref (q)); ob_putc (o, '/'); put_z (o, mpq_denref (q)); }
static void put_f (outbuf *o, mpf_srcptr f)
{
  /* F<prec limbs>,<exp>,<size>,<hex magnitude> ; value = mag * 2^(64*(exp-|size|)) */
  ob_printf (o, "F%d,%ld,%ld,", (int) PREC (f), (long) EXP (f), (long) SIZ (f));
  limbs2hex (o, PTR (f), ABSIZ (f));
}
static void put_hexbytes (outbuf *o, const unsigned char *s, size_t n)
{
  static const char hx[] = "0123456789abcdef"; size_t i;
  ob_need (o, 2 * n + 2);
  if (n == 0) ob_putc (o, '-');
  for (i = 0; i < n; i++) { o->p[o->n++] = hx[s[i] >> 4]; o->p[o->n++] = hx[s[i] & 15]; }
}
static size_t unhex (const char *s, unsigned char *out)
{
  size_t n = 0;
  while (s[0] && s[1] && hexval (s[0]) >= 0) { out[n++] = hexval (s[0]) * 16 + hexval (s[1]); s += 2; }
  return n;
}

/* ---------------------------------------------------------------- well-formedness (written from the manual, not the tree's macros) */
static void wf_z (const char *what, mpz_srcptr z)
{
  long a = z->_mp_alloc, s = z->_mp_size, as = s < 0 ? -s : s;
  if (a < 1) monitor_msg ("WF:%s:alloc<1(%ld)", what, a);
  else if (as > a) monitor_msg ("WF:%s:size>alloc(%ld>%ld)", what, as, a);
  else if (as > 0 && z->_mp_d[as - 1] == 0) monitor_msg ("WF:%s:top-limb-zero(size=%ld)", what, s);
}
static void wf_q (const char *what, mpq_srcptr q)
{
  char b[64];
  snprintf (b, sizeof b, "%s.num", what); wf_z (b, mpq_numref (q));
  snprintf (b, sizeof b, "%s.den", what); wf_z (b, mpq_denref (q));
}
/* variables whose precision is currently lowered with mpf_set_prec_raw (calls come in lower/restore pairs): their size may exceed prec+1 */
static __thread const void *rawlow[32]; static __thread int nraw;
static int raw_lowered (const void *f) { int i; for (i = 0; i < nraw; i++) if (rawlow[i] == f) return 1; return 0; }
static void raw_toggle (const void *f)
{
  int i;
  for (i = 0; i < nraw; i++) if (rawlow[i] == f) { rawlow[i] = rawlow[--nraw]; return; }
  if (nraw < 32) rawlow[nraw++] = f;
}
static void wf_f (const char *what, mpf_srcptr f)
{
  long p = f->_mp_prec, s = f->_mp_size, as = s < 0 ? -s : s;
  if (p < 2) monitor_msg ("WF:%s:prec<2(%ld)", what, p);
  if (as > p + 1 && raw_lowered (f)) ;
  else if (as > p + 1) monitor_msg ("WF:%s:size>prec+1(%ld>%ld+1)", what, as, p);
  else if (as > 0 && f->_mp_d[as - 1] == 0) monitor_msg ("WF:%s:top-limb-zero(size=%ld)", what, s);
  if (s == 0 && f->_mp_exp != 0) monitor_msg ("WF:%s:zero-with-exp(%ld)", what, (long) f->_mp_exp);
}

static uint64_t fnv (uint64_t h, const void *p, size_t n)
{
  const unsigned char *s = p; size_t i;
  for (i = 0; i < n; i++) { h ^= s[i]; h *= 1099511628211ull; }
  return h;
}
static uint64_t dig_z (mpz_srcptr z) { long s = SIZ (z); uint64_t h = fnv (1469598103934665603ull, &s, sizeof s); return fnv (h, PTR (z), ABSIZ (z) * sizeof (mp_limb_t)); }
static uint64_t dig_q (mpq_srcptr q) { return dig_z (mpq_numref (q)) * 31 + dig_z (mpq_denref (q)); }
static uint64_t dig_f (mpf_srcptr f) { long s = SIZ (f), e = EXP (f), p = PREC (f); uint64_t h = fnv (1469598103934665603ull, &s, sizeof s); h = fnv (h, &e, sizeof e); h = fnv (h, &p, sizeof p); return fnv (h, PTR (f), ABSIZ (f) * sizeof (mp_limb_t)); }

/* ---------------------------------------------------------------- function table */
static int w_mpz_sgn (mpz_srcptr z) { return mpz_sgn (z); }
static int w_mpz_odd_p (mpz_srcptr z) { return mpz_odd_p (z); }
static int w_mpz_even_p (mpz_srcptr z) { return mpz_even_p (z); }
static int w_mpz_cmp_ui (mpz_srcptr z, mpir_ui u) { return mpz_cmp_ui (z, u); }
static int w_mpz_cmp_si (mpz_srcptr z, mpir_si u) { return mpz_cmp_si (z, u); }
static int w_mpq_sgn (mpq_srcptr z) { return mpq_sgn (z); }
static int w_mpf_sgn (mpf_srcptr z) { return mpf_sgn (z); }
static int w_mpq_cmp_ui (mpq_srcptr q, mpir_ui n, mpir_ui d) { return mpq_cmp_ui (q, n, d); }
static int w_mpq_cmp_si (mpq_srcptr q, mpir_si n, mpir_ui d) { return mpq_cmp_si (q, n, d); }

typedef struct fent { const char *name; void *fn; const char *ret; const char *sig; } fent;
#define X(n,r,s) { #n, (void *) n, r, s },
#define XW(n,r,s) { #n, (void *) w_##n, r, s },
#define XN(n,r,s) { "mpn_" #n, (void *) __gmpn_##n, r, s },
static fent ftab[] = {
#include "api.inc"
  { NULL, NULL, NULL, NULL }
};
#define FH 2048
static fent *fhash[FH];
static unsigned strh (const char *s) { unsigned h = 5381; while (*s) h = h * 33 + (unsigned char) *s++; return h; }
static void ftab_init (void)
{
  fent *f;
  for (f = ftab; f->name; f++)
    {
      unsigned h = strh (f->name) % FH;
      while (fhash[h]) h = (h + 1) % FH;
      fhash[h] = f;
    }
}
static fent *ffind (const char *name)
{
  unsigned h = strh (name) % FH;
  while (fhash[h]) { if (!strcmp (fhash[h]->name, name)) return fhash[h]; h = (h + 1) % FH; }
  return NULL;
}

typedef long (*gfn_l) (long, long, long, long, long, long, long, long, double, double);
typedef double (*gfn_d) (long, long, long, long, long, long, long, long, double, double);

/* ---------------------------------------------------------------- tokens */
static char *next_tok (char **s)
{
  char *p = *s, *q;
  while (*p == ' ') p++;
  if (!*p) return NULL;
  q = p;
  while (*q && *q != ' ') q++;
  if (*q) *q++ = 0;
  *s = q;
  return p;
}

static mpz_ptr tok_z (ctx *c, const char *t)
{
  int i;
  if (t[0] == 'S') { c = &main_ctx; t++; }
  i = atoi (t + 1);
  switch (t[0])
    {
    case 'Z': return i < NZ ? c->Z[i] : NULL;
    case 'N': return i < NQ ? mpq_numref (c->Q[i]) : NULL;
    case 'D': return i < NQ ? mpq_denref (c->Q[i]) : NULL;
    }
  return NULL;
}

#define MAXA 10
typedef struct arg { char role; const char *tok; void *ptr; int lidx; uint64_t dig; int written_alias; } arg;

static void bad (ctx *c, const char *why, const char *x)
{
  ob_printf (&c->out, "?ERR %s %s\n", why, x ? x : "");
}

static int do_call (ctx *c, char *s)
{
  char *name = next_tok (&s), *t;
  fent *f; arg A[MAXA]; long ia[8]; double da[2]; int ni = 0, nd = 0, na = 0, k, j;
  long rl = 0; double rd = 0; const char *sp;
  unsigned char *strtmp[MAXA]; int nstr = 0;
  if (!name || !(f = ffind (name))) { bad (c, "unknown-function", name); return -1; }
  memset (ia, 0, sizeof ia); da[0] = da[1] = 0;
  for (sp = f->sig; *sp; sp++)
    {
      arg *a = &A[na];
      t = next_tok (&s);
      if (!t) { bad (c, "missing-arg", name); goto fail; }
      a->role = *sp; a->tok = t; a->ptr = NULL; a->lidx = -1; a->dig = 0; a->written_alias = 0;
      switch (*sp)
        {
        case 'Z': case 'z': case 'I':
          a->ptr = tok_z (c, t);
          if (!a->ptr) { bad (c, "bad-mpz-token", t); goto fail; }
          if (*sp == 'I') mpz_clear (a->ptr);
          ia[ni++] = (long) a->ptr; break;
        case 'Q': case 'q': case 'K':
          if (t[0] == 'S' && t[1] == 'Q' && *sp == 'q') { a->ptr = main_ctx.Q[atoi (t + 2) % NQ]; ia[ni++] = (long) a->ptr; break; }
          if (t[0] != 'Q' || atoi (t + 1) >= NQ) { bad (c, "bad-mpq-token", t); goto fail; }
          a->ptr = c->Q[atoi (t + 1)];
          if (*sp == 'K') mpq_clear (a->ptr);
          ia[ni++] = (long) a->ptr; break;
        case 'F': case 'f': case 'J':
          if (t[0] == 'S' && t[1] == 'F' && *sp == 'f') { a->ptr = main_ctx.F[atoi (t + 2) % NF]; ia[ni++] = (long) a->ptr; break; }
          if (t[0] != 'F' || atoi (t + 1) >= NF) { bad (c, "bad-mpf-token", t); goto fail; }
          a->ptr = c->F[atoi (t + 1)];
          if (*sp == 'J') mpf_clear (a->ptr);
          ia[ni++] = (long) a->ptr; break;
        case 'R': case 'r':
          {
            int i = atoi (t + 1);
            if (t[0] != 'R' || i >= NR) { bad (c, "bad-rand-token", t); goto fail; }
            if (!strncmp (name, "gmp_randinit", 12) && *sp == 'R')
              { if (c->Rinit[i]) gmp_randclear (c->R[i]); c->Rinit[i] = 1; }
            else if (!c->Rinit[i]) { gmp_randinit_default (c->R[i]); c->Rinit[i] = 1; }
            a->ptr = c->R[i]; ia[ni++] = (long) a->ptr; break;
          }
        case 'u': case 's': case 'i': case 'b': case 'n':
          if (t[0] != '#') { bad (c, "bad-int-token", t); goto fail; }
          if (t[1] == '-') ia[ni++] = strtol (t + 1, NULL, 0);
          else ia[ni++] = (long) strtoul (t + 1, NULL, 0);
          break;
        case 'd':
          if (t[0] != 'd') { bad (c, "bad-double-token", t); goto fail; }
          da[nd++] = strtod (t + 1, NULL); break;
        case 't':
          if (t[0] != 's') { bad (c, "bad-string-token", t); goto fail; }
          {
            size_t L = strlen (t + 1) / 2; unsigned char *b = __real_malloc (L + 1);
            L = unhex (t + 1, b); b[L] = 0; strtmp[nstr++] = b; a->ptr = b; ia[ni++] = (long) b;
          }
          break;
        case '&':
          a->ptr = &c->slots[na & 7]; c->slots[na & 7] = 0x5a5a5a5a5a5a5a5al; ia[ni++] = (long) a->ptr; break;
        case 'C':
          if (t[0] == '0') { a->ptr = NULL; ia[ni++] = 0; }
          else if (t[0] == 'B')
            {
              size_t n = strtoul (t + 1, NULL, 0); cbuf *b = &c->B[na & 3];
              b->p = fence_map (&b->map, &b->maplen, n, 0); b->n = n; memset (b->p, 0x7f, n);
              a->ptr = b->p; a->lidx = na & 3; ia[ni++] = (long) b->p;
            }
          else { bad (c, "bad-charbuf-token", t); goto fail; }
          break;
        case 'w': case 'v':
          {
            extern FILE *drv_stream (int);
            FILE *fp = drv_stream (*sp == 'w');
            if (!fp) { bad (c, "no-stream-open", t); goto fail; }
            ia[ni++] = (long) fp; break;
          }
        case 'P': case 'p':
          if (t[0] == '0') { a->ptr = NULL; ia[ni++] = 0; }
          else if (t[0] == 'L')
            {
              char *e; int i = strtol (t + 1, &e, 10); long off = 0;
              if (i < 0 || i >= NL) { bad (c, "bad-limb-token", t); goto fail; }
              if (*e == ':') { size_t n = strtoul (e + 1, &e, 0); int lo = (*e == 'v'); lbuf_set (&c->L[i], n, lo); { size_t q; for (q = 0; q < n; q++) c->L[i].p[q] = 0xA5A5A5A5A5A5A5A5ul; } }
              else if (*e == '+') off = strtol (e + 1, NULL, 0);
              else if (*e == '-') off = -strtol (e + 1, NULL, 0);
              if (!c->L[i].p) { bad (c, "unset-limb-buffer", t); goto fail; }
              a->ptr = c->L[i].p + off; a->lidx = i; ia[ni++] = (long) a->ptr;
            }
          else { bad (c, "bad-limb-token", t); goto fail; }
          break;
        default:
          bad (c, "bad-sig-char", f->sig); goto fail;
        }
      na++;
      if (ni > 8 || nd > 2 || na >= MAXA) { bad (c, "too-many-args", name); goto fail; }
    }
  /* which read-only operands are also written through another argument? */
  for (k = 0; k < na; k++)
    if (strchr ("zqf", A[k].role))
      {
        for (j = 0; j < na; j++)
          if (j != k && strchr ("ZQFIJK", A[j].role) && A[j].ptr == A[k].ptr) A[k].written_alias = 1;
        /* numerator/denominator of a written mpq */
        for (j = 0; j < na; j++)
          if (strchr ("QK", A[j].role) && A[k].role == 'z'
              && (A[k].ptr == (void *) mpq_numref ((mpq_ptr) A[j].ptr) || A[k].ptr == (void *) mpq_denref ((mpq_ptr) A[j].ptr)))
            A[k].written_alias = 1;
        for (j = 0; j < na; j++)
          if (strchr ("ZI", A[j].role) && A[k].role == 'q'
              && (A[j].ptr == (void *) mpq_numref ((mpq_ptr) A[k].ptr) || A[j].ptr == (void *) mpq_denref ((mpq_ptr) A[k].ptr)))
            A[k].written_alias = 1;
        if (!A[k].written_alias)
          A[k].dig = A[k].role == 'z' ? dig_z (A[k].ptr) : A[k].role == 'q' ? dig_q (A[k].ptr) : dig_f (A[k].ptr);
      }
  {
    extern void par_enter (int), par_leave (int);
    par_enter ((int) (f - ftab));
  }
  in_lib = 1;
  if (f->ret[0] == 'd')
    rd = ((gfn_d) f->fn) (ia[0], ia[1], ia[2], ia[3], ia[4], ia[5], ia[6], ia[7], da[0], da[1]);
  else
    rl = ((gfn_l) f->fn) (ia[0], ia[1], ia[2], ia[3], ia[4], ia[5], ia[6], ia[7], da[0], da[1]);
  in_lib = 0;
  { extern void par_leave (int); par_leave ((int) (f - ftab)); }
  if (!strcmp (name, "gmp_randinit_lc_2exp_size") && (int) rl == 0)
    {
      /* unsupported size: the state was not initialised */
      for (k = 0; k < na; k++) if (A[k].role == 'R') { int i; for (i = 0; i < NR; i++) if ((void *) c->R[i] == A[k].ptr) c->Rinit[i] = 0; }
    }
  /* reply */
  ob_putc (&c->out, '=');
  switch (f->ret[0])
    {
    case 'v': case 'p': break;
    case 'i': ob_printf (&c->out, " %d", (int) rl); break;
    case 'l': ob_printf (&c->out, " %ld", rl); break;
    case 'u': ob_printf (&c->out, " %lu", (unsigned long) rl); break;
    case 'd': ob_printf (&c->out, " %a", rd); break;
    case 's':
      {
        char *r = (char *) rl;
        ob_putc (&c->out, ' ');
        if (!r) ob_write (&c->out, "NULL", 4);
        else
          {
            size_t L = strlen (r);
            put_hexbytes (&c->out, (unsigned char *) r, L);
            if (A[0].role == 'C' && A[0].ptr == NULL) r_free (r, L + 1);   /* allocated by the library: block must be strlen+1 */
            else if (A[0].role == 'C' && r != A[0].ptr) monitor_msg ("RET:string-pointer-not-the-buffer");
          }
      }
      break;
    }
  for (k = 0; k < na; k++)
    {
      arg *a = &A[k];
      switch (a->role)
        {
        case 'Z': case 'I':
          for (j = 0; j < k; j++) if (A[j].ptr == a->ptr && strchr ("ZI", A[j].role)) break;
          if (j < k) break;
          ob_putc (&c->out, ' '); put_z (&c->out, a->ptr); wf_z (a->tok, a->ptr); break;
        case 'Q': case 'K':
          for (j = 0; j < k; j++) if (A[j].ptr == a->ptr && strchr ("QK", A[j].role)) break;
          if (j < k) break;
          ob_putc (&c->out, ' '); put_q (&c->out, a->ptr); wf_q (a->tok, a->ptr); break;
        case 'F': case 'J':
          for (j = 0; j < k; j++) if (A[j].ptr == a->ptr && strchr ("FJ", A[j].role)) break;
          if (j < k) break;
          ob_putc (&c->out, ' '); put_f (&c->out, a->ptr);
          /* between mpf_set_prec_raw calls the size may legitimately exceed the lowered precision */
          if (strcmp (name, "mpf_set_prec_raw")) wf_f (a->tok, a->ptr); else raw_toggle (a->ptr);
          break;
        case '&':
          ob_printf (&c->out, " %ld", *(long *) a->ptr); break;
        case 'C':
          if (a->ptr && f->ret[0] != 's')
            {
              cbuf *b = &c->B[a->lidx]; size_t L;
              ob_putc (&c->out, ' ');
              if (!strcmp (name, "mpn_get_str")) L = (size_t) rl <= b->n ? (size_t) rl : b->n;
              else L = strnlen (b->p, b->n);
              put_hexbytes (&c->out, (unsigned char *) b->p, L);
            }
          break;
        case 'P':
          if (a->ptr)
            {
              lbuf *b = &c->L[a->lidx];
              for (j = 0; j < k; j++) if (A[j].role == 'P' && A[j].lidx == a->lidx) break;
              if (j < k) break;
              ob_printf (&c->out, " L%d=", a->lidx);
              {
                /* fixed-width dump (high zero limbs are data for mpn) */
                size_t q; ob_need (&c->out, 16 * b->n + 2);
                if (b->n == 0) ob_putc (&c->out, '-');
                for (q = b->n; q-- > 0;) ob_printf (&c->out, "%016lx", (unsigned long) b->p[q]);
              }
              if (!lbuf_canary_ok (b)) monitor_msg ("FENCE:write-outside-L%d", a->lidx);
            }
          break;
        case 'z':
          wf_z (a->tok, a->ptr);
          if (!a->written_alias && dig_z (a->ptr) != a->dig) monitor_msg ("IMMUT:%s:arg%d(%s)-modified", name, k, a->tok);
          break;
        case 'q':
          if (!a->written_alias && dig_q (a->ptr) != a->dig) monitor_msg ("IMMUT:%s:arg%d(%s)-modified", name, k, a->tok);
          break;
        case 'f':
          if (!a->written_alias && dig_f (a->ptr) != a->dig) monitor_msg ("IMMUT:%s:arg%d(%s)-modified", name, k, a->tok);
          break;
        }
    }
  for (k = 0; k < nstr; k++) __real_free (strtmp[k]);
  return 0;
fail:
  for (k = 0; k < nstr; k++) __real_free (strtmp[k]);
  return -1;
}

#include "extra.inc"
void par_enter (int k)
{
  int n;
  if (k < 0 || k >= 1024) return;
  n = __atomic_fetch_add (&par_inflight[k], 1, __ATOMIC_RELAXED);
  if (n > 0)
    {
      __atomic_fetch_add (&par_overlap[k], 1, __ATOMIC_RELAXED);
      if ((unsigned long) n + 1 > __atomic_load_n (&par_maxsim[k], __ATOMIC_RELAXED)) __atomic_store_n (&par_maxsim[k], (unsigned long) n + 1, __ATOMIC_RELAXED);
    }
}
void par_leave (int k) { if (k >= 0 && k < 1024) __atomic_fetch_sub (&par_inflight[k], 1, __ATOMIC_RELAXED); }
FILE *drv_stream (int w) { return w ? WS : RS; }

/* ---------------------------------------------------------------- crash capture */
static void on_signal (int sig)
{
  static volatile int once = 0;
  char b[600]; int n; ctx *c = cur_ctx;
  if (once++) _exit (70);
  /* flush replies produced so far, then the crash line */
  if (c == &main_ctx) ob_flush_fd (&c->out, 1);
  n = snprintf (b, sizeof b, "!CRASH sig=%d cmdno=%lu cmd=%.400s\n", sig, c->cmdno, c->curcmd ? c->curcmd : "");
  if (write (1, b, n) < 0) {}
  if (write (2, b, n) < 0) {}
  signal (sig, SIG_DFL);
  raise (sig);
}

/* ---------------------------------------------------------------- main loop */
static int sync_mode = 0;

static void exec_line (ctx *c, char *line)
{
  char *s = line, *cmd;
  size_t startn;
  c->cmdno++;
  cmd = next_tok (&s);
  if (!cmd) { ob_printf (&c->out, "\n"); return; }
  rec->msgs.n = 0;
  startn = c->out.n; (void) startn;
  if (!strcmp (cmd, "c")) { if (do_call (c, s) == 0) { if (rec->msgs.n) ob_write (&c->out, rec->msgs.p, rec->msgs.n); ob_putc (&c->out, '\n'); } return; }
  if (!strcmp (cmd, "z"))
    {
      char *t = next_tok (&s), *h = next_tok (&s); mpz_ptr z = t ? tok_z (c, t) : NULL;
      if (!z || !h) { bad (c, "z", t); return; }
      set_z_hex (z, h); ob_write (&c->out, "ok\n", 3); return;
    }
  if (!strcmp (cmd, "q"))
    {
      char *t = next_tok (&s), *h1 = next_tok (&s), *h2 = next_tok (&s);
      if (!t || !h2 || t[0] != 'Q' || atoi (t + 1) >= NQ) { bad (c, "q", t); return; }
      set_z_hex (mpq_numref (c->Q[atoi (t + 1)]), h1); set_z_hex (mpq_denref (c->Q[atoi (t + 1)]), h2);
      ob_write (&c->out, "ok\n", 3); return;
    }
  if (!strcmp (cmd, "f"))
    {
      /* f F<i> <prec bits> <exp> <size> <hexmag> */
      char *t = next_tok (&s), *pb = next_tok (&s), *e = next_tok (&s), *sz = next_tok (&s), *h = next_tok (&s);
      mpf_ptr f; long size, as; size_t n;
      if (!t || !h || t[0] != 'F' || atoi (t + 1) >= NF) { bad (c, "f", t); return; }
      f = c->F[atoi (t + 1)];
      mpf_set_prec (f, strtoul (pb, NULL, 0));
      size = strtol (sz, NULL, 0); as = size < 0 ? -size : size;
      if (as > PREC (f) + 1) { bad (c, "f-size>prec+1", t); return; }
      memset (PTR (f), 0, (PREC (f) + 1) * sizeof (mp_limb_t));
      n = hex2limbs (h, strlen (h), PTR (f), as);
      (void) n;
      SIZ (f) = size; EXP (f) = strtol (e, NULL, 0);
      ob_write (&c->out, "ok\n", 3); return;
    }
  if (!strcmp (cmd, "l"))
    {
      /* l <i> <n> <hex> [v] : limb buffer i := n limbs holding the value; 'v' fences the low end */
      char *t = next_tok (&s), *ns = next_tok (&s), *h = next_tok (&s), *fl = next_tok (&s);
      int i; size_t n;
      if (!t || !h) { bad (c, "l", t); return; }
      i = atoi (t); n = strtoul (ns, NULL, 0);
      if (i < 0 || i >= NL) { bad (c, "l-index", t); return; }
      lbuf_set (&c->L[i], n, fl && fl[0] == 'v');
      memset (c->L[i].p, 0, n * sizeof (mp_limb_t));
      hex2limbs (h, strlen (h), c->L[i].p, n);
      ob_write (&c->out, "ok\n", 3); return;
    }
  if (!strcmp (cmd, "gz")) { char *t = next_tok (&s); mpz_ptr z = t ? tok_z (c, t) : NULL; if (!z) { bad (c, "gz", t); return; } put_z (&c->out, z); ob_printf (&c->out, " a%d\n", ALLOC (z)); return; }
  if (!strcmp (cmd, "gq")) { char *t = next_tok (&s); if (!t) { bad (c, "gq", t); return; } put_q (&c->out, c->Q[atoi (t + 1) % NQ]); ob_putc (&c->out, '\n'); return; }
  if (!strcmp (cmd, "gf")) { char *t = next_tok (&s); if (!t) { bad (c, "gf", t); return; } put_f (&c->out, c->F[atoi (t + 1) % NF]); ob_putc (&c->out, '\n'); return; }
  if (!strcmp (cmd, "shrink"))
    {
      /* smallest legal allocation for the current value */
      char *t = next_tok (&s); mpz_ptr z = t ? tok_z (c, t) : NULL;
      if (!z) { bad (c, "shrink", t); return; }
      in_lib = 1; mpz_realloc2 (z, SIZ (z) ? (mp_bitcnt_t) ABSIZ (z) * GMP_NUMB_BITS : 1); in_lib = 0;
      wf_z (t, z);
      ob_printf (&c->out, "ok a%d", ALLOC (z)); if (rec->msgs.n) ob_write (&c->out, rec->msgs.p, rec->msgs.n); ob_putc (&c->out, '\n'); return;
    }
  if (!strcmp (cmd, "grow"))
    {
      char *t = next_tok (&s), *k = next_tok (&s); mpz_ptr z = t ? tok_z (c, t) : NULL;
      if (!z || !k) { bad (c, "grow", t); return; }
      in_lib = 1; mpz_realloc2 (z, (mp_bitcnt_t) (ABSIZ (z) + strtoul (k, NULL, 0)) * GMP_NUMB_BITS); in_lib = 0;
      wf_z (t, z);
      ob_printf (&c->out, "ok a%d", ALLOC (z)); if (rec->msgs.n) ob_write (&c->out, rec->msgs.p, rec->msgs.n); ob_putc (&c->out, '\n'); return;
    }
  if (!strcmp (cmd, "reinit"))
    {
      char *t = next_tok (&s); mpz_ptr z = t ? tok_z (c, t) : NULL;
      if (!z || t[0] != 'Z') { bad (c, "reinit", t); return; }
      in_lib = 1; mpz_clear (z); mpz_init (z); in_lib = 0;
      ob_write (&c->out, "ok", 2); if (rec->msgs.n) ob_write (&c->out, rec->msgs.p, rec->msgs.n); ob_putc (&c->out, '\n'); return;
    }
  if (!strcmp (cmd, "stat"))
    {
      ob_printf (&c->out, "stat nalloc=%lu nrealloc=%lu nfree=%lu live=%lu live_bytes=%lu peak=%lu viol=%lu bypass=%lu maxreq=%lu\n",
                 rec->nalloc, rec->nrealloc, rec->nfree, rec->live, rec->live_bytes, rec->peak_bytes, rec->viol, bypass_events, rec->max_req);
      return;
    }
  if (!strcmp (cmd, "hits"))
    {
      int i; ob_write (&c->out, "hits", 4);
      for (i = 0; i < NHOOK; i++) if (__mpir_verif_hits[i]) ob_printf (&c->out, " %d:%lu", i, __mpir_verif_hits[i]);
      ob_putc (&c->out, '\n'); return;
    }
  if (!strcmp (cmd, "evts"))
    {
      int i; ob_write (&c->out, "evts", 4);
      for (i = 0; i < nevts; i++) ob_printf (&c->out, " %d:%ld:%ld:%ld:%ld", evts[i].id, evts[i].a, evts[i].b, evts[i].c, evts[i].d);
      ob_putc (&c->out, '\n'); nevts = 0; return;
    }
  if (!strcmp (cmd, "clearall"))
    { nraw = 0;
      /* clear every object; the recorder must then hold nothing */
      unsigned long live;
      in_lib = 1; live = ctx_clear (c); in_lib = 0;
      ob_printf (&c->out, "cleared live=%lu live_bytes=%lu", live, rec->live_bytes);
      if (rec->msgs.n) ob_write (&c->out, rec->msgs.p, rec->msgs.n);
      ob_putc (&c->out, '\n');
      ctx_init (c);
      return;
    }
  if (!strcmp (cmd, "limit")) { char *t = next_tok (&s); alloc_limit = t ? strtoul (t, NULL, 0) : 0; ob_write (&c->out, "ok\n", 3); return; }
  if (!strcmp (cmd, "ping")) { ob_printf (&c->out, "pong %s asan=%d limb=%d\n", VARIANT, HAVE_ASAN, GMP_LIMB_BITS); return; }
  if (extra_command (c, cmd, s)) { return; }
  bad (c, "unknown-command", cmd);
}

int main (int argc, char **argv)
{
  char *line = NULL; size_t cap = 0; ssize_t n; int i;
  static const int sigs[] = { SIGSEGV, SIGBUS, SIGILL, SIGFPE, SIGABRT };
  pagesz = sysconf (_SC_PAGESIZE);
  for (i = 1; i < argc; i++)
    {
      if (!strcmp (argv[i], "--sync")) sync_mode = 1;
      else if (!strcmp (argv[i], "--default-alloc")) custom_installed = -1;
    }
  for (i = 0; i < 5; i++) signal (sigs[i], on_signal);
  {
    /* alternate stack so that stack overflows are reported too */
    static char altstack[1 << 16]; stack_t ss; struct sigaction sa;
    ss.ss_sp = altstack; ss.ss_size = sizeof altstack; ss.ss_flags = 0; sigaltstack (&ss, NULL);
    memset (&sa, 0, sizeof sa); sa.sa_handler = on_signal; sa.sa_flags = SA_ONSTACK; sigaction (SIGSEGV, &sa, NULL);
  }
  if (custom_installed == 0) { mp_set_memory_functions (r_alloc, r_realloc, r_free); custom_installed = 1; }
  else custom_installed = 0;
  ftab_init ();
  ctx_init (&main_ctx);
  while ((n = getline (&line, &cap, stdin)) > 0)
    {
      ctx *c = &main_ctx;
      while (n > 0 && (line[n - 1] == '\n' || line[n - 1] == '\r')) line[--n] = 0;
      if (n == 1 && line[0] == 'F') { ob_flush_fd (&c->out, 1); continue; }
      if (n == 1 && line[0] == 'X') break;
      { static char cc[420]; size_t k = n < 400 ? (size_t) n : 400; memcpy (cc, line, k); cc[k] = 0; c->curcmd = cc; }
      exec_line (c, line);
      c->curcmd = NULL;
      if (sync_mode) ob_flush_fd (&c->out, 1);
    }
  ob_flush_fd (&main_ctx.out, 1);
  return 0;
}
