"""Knowledge about the public API used by the generic generators (C04 histories, C05 aliasing):
signatures from drv/api.inc, argument generators, and the documented domain of each function."""
import os, re, math, random
from fractions import Fraction
import gen, models
from gen import B, M

HERE = os.path.dirname(os.path.abspath(__file__))

def load():
    fns = {}
    for l in open(os.path.join(HERE, '..', 'drv', 'api.inc')):
        m = re.match(r'X([WN]?)\((\w+),\s*"(.)",\s*"(.*)"\)', l.strip())
        if not m: continue
        name = ('mpn_' + m.group(2)) if m.group(1) == 'N' else m.group(2)
        fns[name] = (m.group(3), m.group(4))
    return fns

FNS = load()

# functions never called by the generic generators
EXCLUDE = {
    'mpz_millerrabin',            # internal helper of mpz_probab_prime_p (expects odd n > 3 and trial division done)
    'mpz_realloc2',               # issued by the harness itself as allocation perturbation
    'mpf_set_prec_raw',           # only inside the bracketed composite step
    'mpf_get_default_prec',
    'gmp_randinit_lc_2exp_size', 'gmp_randinit_lc_2exp', 'gmp_randinit_default', 'gmp_randinit_mt', 'gmp_randseed', 'gmp_randseed_ui',
    'mpz_inp_raw', 'mpz_inp_str', 'mpq_inp_str', 'mpf_inp_str', 'mpz_out_raw', 'mpz_out_str', 'mpq_out_str', 'mpf_out_str',   # composite stream steps
    'mpz_getlimbn',
}

def is_generic(name):
    return name.startswith(('mpz_', 'mpq_', 'mpf_', 'gmp_u')) and name not in EXCLUDE

PRECS = [53, 64, 128, 200, 700]

def rnd_q(r, maxl=3):
    n = gen.val(r, maxl); d = abs(gen.val(r, maxl, False)) or 1
    # whole zero low limbs in one component (odd other component): the 2exp functions then move limbs inside the variable (F9)
    c = r.random()
    if c < 0.12: d = (d | 1) << (64 * r.randint(1, 3) + r.choice([0, 0, 1, 63])); n |= 1
    elif c < 0.24: n = (n | 1) << (64 * r.randint(1, 3) + r.choice([0, 0, 1, 63])); d |= 1
    return Fraction(n, d)

def rnd_f(r, maxbits=300):
    m = r.getrandbits(r.randint(1, maxbits)) * r.choice([1, 1, -1]); e2 = r.choice([0, 0, -64, 64, r.randint(-300, 300), -abs(m).bit_length()])
    if r.random() < 0.05: m = 0
    return (m, e2)

def fvalue(f):
    return Fraction(f[0]) * Fraction(2) ** f[1]

def rnd_str(r, base):
    b = base if base else 10
    al = models.alphabet(b if b > 36 else 36)[:b] if b <= 36 else models.AL_62[:b]
    s = r.choice(['', '-']) + ''.join(r.choice(al) for _ in range(r.randint(1, 60)))
    if base == 0 and r.random() < 0.5: s = r.choice(['0x1f', '-0b101', '0777', '123', '0X', '0b', 'zz'])
    c = r.random()
    if c < 0.15: s = s[:r.randint(0, len(s))] + r.choice(['g', ' ', '.', '~', '+']) + s
    elif c < 0.2: s = ''
    return s.encode()

def gen_args(r, name, maxl=6):
    """raw (not yet domain-fixed) argument values aligned with the signature"""
    ret, sig = FNS[name]
    vals = []
    for ch in sig:
        if ch in 'Zz': vals.append(gen.val(r, maxl) if r.random() < 0.9 else gen.signed(r, r.choice([10, 30, 60])))
        elif ch in 'Qq': vals.append(rnd_q(r))
        elif ch in 'Ff': vals.append(rnd_f(r))
        elif ch == 'u': vals.append(r.choice([0, 1, 2, 3, r.getrandbits(64), r.getrandbits(8), M, 1 << 63]))
        elif ch == 's': vals.append(r.choice([0, 1, -1, r.getrandbits(63) * r.choice([1, -1]), -(1 << 63), (1 << 63) - 1, r.randint(-300, 300)]))
        elif ch == 'i': vals.append(r.randint(2, 62))
        elif ch == 'b': vals.append(r.choice([0, 1, 63, 64, 65, r.randint(0, 300)]))
        elif ch == 'n': vals.append(r.randint(0, 20))
        elif ch == 'd': vals.append(r.choice([0.0, 1.0, -1.5, 2.0 ** 70, -2.0 ** -30, float(r.getrandbits(53)) * 2.0 ** r.randint(-90, 90), 1e300, 123456789.75]))
        elif ch == 't': vals.append(None)
        else: vals.append(None)
    return vals

DIVZ = {'mpz_cdiv_q', 'mpz_cdiv_r', 'mpz_cdiv_qr', 'mpz_fdiv_q', 'mpz_fdiv_r', 'mpz_fdiv_qr', 'mpz_tdiv_q', 'mpz_tdiv_r', 'mpz_tdiv_qr', 'mpz_mod'}
DIVUI = {'mpz_cdiv_q_ui', 'mpz_cdiv_r_ui', 'mpz_cdiv_qr_ui', 'mpz_cdiv_ui', 'mpz_fdiv_q_ui', 'mpz_fdiv_r_ui', 'mpz_fdiv_qr_ui', 'mpz_fdiv_ui',
         'mpz_tdiv_q_ui', 'mpz_tdiv_r_ui', 'mpz_tdiv_qr_ui', 'mpz_tdiv_ui', 'mpf_div_ui', 'mpz_mod_ui'}
SMALLU = {'mpz_fac_ui': 1500, 'mpz_2fac_ui': 2000, 'mpz_primorial_ui': 3000, 'mpz_fib_ui': 3000, 'mpz_fib2_ui': 3000, 'mpz_lucnum_ui': 3000, 'mpz_lucnum2_ui': 3000,
          'mpf_sqrt_ui': None, 'mpf_pow_ui': 20}

def fix(r, name, vals):
    """make the call valid per the manual and bounded in cost; returns vals or None (skip)"""
    ret, sig = FNS[name]
    v = list(vals)
    zi = [i for i, ch in enumerate(sig) if ch in 'z']
    ui = [i for i, ch in enumerate(sig) if ch in 'u']
    bi = [i for i, ch in enumerate(sig) if ch in 'b']
    if name in DIVZ:
        if v[zi[-1]] == 0: v[zi[-1]] = r.choice([1, -1, 3, gen.val(r, 3) or 5])
    elif name in DIVUI:
        if v[ui[-1]] == 0: v[ui[-1]] = r.choice([1, 3, M])
    elif name == 'mpz_divexact':
        d = v[zi[1]] or 7; v[zi[1]] = d; v[zi[0]] = v[zi[0]] * d
    elif name == 'mpz_divexact_ui':
        u = v[ui[0]] or 3; v[ui[0]] = u; v[zi[0]] = v[zi[0]] * u
    elif name == 'mpz_powm':
        b_, e_, m_ = zi
        if v[m_] == 0: v[m_] = 97
        v[e_] = abs(v[e_]) & ((1 << 140) - 1)
    elif name == 'mpz_powm_ui':
        if v[zi[-1]] == 0: v[zi[-1]] = 1001
    elif name == 'mpz_invert':
        if abs(v[zi[1]]) <= 1: v[zi[1]] = r.choice([2, 9, -15, gen.nat(r, 2) | 2])
    elif name in ('mpz_sqrt', 'mpz_sqrtrem'): v[zi[0]] = abs(v[zi[0]])
    elif name in ('mpz_root', 'mpz_nthroot', 'mpz_rootrem'):
        n = r.choice([1, 2, 3, 4, 5, 7, 64, 1000]); v[ui[0]] = n
        if n % 2 == 0: v[zi[0]] = abs(v[zi[0]])
    elif name == 'mpz_remove':
        if v[zi[1]] < 2: v[zi[1]] = r.choice([2, 3, 10, abs(v[zi[1]]) + 2])
    elif name in ('mpz_nextprime', 'mpz_next_prime_candidate', 'mpz_probab_prime_p', 'mpz_probable_prime_p', 'mpz_likely_prime_p', 'mpz_miller_rabin'):
        v[zi[0]] = abs(v[zi[0]]) & ((1 << 200) - 1)
        for i, ch in enumerate(sig):
            if ch == 'i': v[i] = r.randint(1, 8)
            if ch == 'u': v[i] = 0
    elif name == 'mpz_pow_ui':
        v[ui[0]] = r.randint(0, 30)
        if abs(v[zi[0]]).bit_length() > 400: v[zi[0]] = gen.val(r, 4)
    elif name == 'mpz_ui_pow_ui': v[ui[0]] = r.choice([0, 1, 2, 3, 10, M, r.getrandbits(64)]); v[ui[1]] = r.randint(0, 40)
    elif name == 'mpz_bin_ui': v[ui[0]] = r.randint(0, 30)
    elif name == 'mpz_bin_uiui': v[ui[0]] = r.choice([r.randint(0, 2000), r.getrandbits(64)]); v[ui[1]] = r.randint(0, 30) if v[ui[0]] > 2000 else r.randint(0, 2000)
    elif name == 'mpz_mfac_uiui': v[ui[0]] = r.randint(0, 2000); v[ui[1]] = r.randint(1, 50)
    elif name in SMALLU:
        lim = SMALLU[name]
        if lim: v[ui[0]] = r.randint(0, lim)
    elif name in ('mpz_setbit', 'mpz_clrbit', 'mpz_combit'): v[bi[0]] = r.choice([0, 1, 63, 64, 65, r.randint(0, 700), 5000])
    elif name in ('mpz_tstbit', 'mpz_scan0', 'mpz_scan1'): v[bi[0]] = r.choice([0, 1, 63, 64, r.randint(0, 700), 1 << 20])
    elif name in ('mpz_sizeinbase',): pass
    elif name == 'mpz_get_str' or name == 'mpq_get_str':
        v[1] = r.choice([2, 10, 16, 36, 62, -2, -16, -36, r.randint(2, 62)])
    elif name in ('mpz_set_str', 'mpz_init_set_str', 'mpq_set_str'):
        b_ = r.choice([0, 0, 2, 10, 16, 36, 62, r.randint(2, 62)]); v[2] = b_
        s = rnd_str(r, b_)
        if name == 'mpq_set_str' and r.random() < 0.6: s = s + b'/' + (rnd_str(r, b_).lstrip(b'-') or b'1')
        v[1] = s
    elif name in ('mpf_set_str', 'mpf_init_set_str'):
        b_ = r.choice([10, 10, 2, 16, 36, 62, -10, -16]); v[2] = b_
        al = (models.alphabet(abs(b_) if abs(b_) > 36 else 36))[:abs(b_)] if abs(b_) <= 36 else models.AL_62[:abs(b_)]
        s = r.choice(['', '-']) + ''.join(r.choice(al) for _ in range(r.randint(1, 30)))
        if r.random() < 0.6: s += '.' + ''.join(r.choice(al) for _ in range(r.randint(0, 30)))
        if r.random() < 0.4: s += '@' + (str(r.randint(-30, 30)) if b_ < 0 else models.digits(r.randint(-30, 30), abs(b_)))
        if r.random() < 0.1: s = r.choice(['', '.', '-', 'x', s + '~'])
        v[1] = s.encode()
    elif name in ('mpz_urandomb', 'mpz_rrandomb', 'mpf_urandomb'): v[bi[0]] = r.choice([0, 1, 64, 65, r.randint(0, 1500)])
    elif name == 'mpz_urandomm':
        v[zi[0]] = abs(v[zi[0]]) or 5
    elif name == 'gmp_urandomb_ui': v[ui[0]] = r.randint(0, 64)
    elif name == 'gmp_urandomm_ui': v[ui[0]] = v[ui[0]] or 7
    elif name == 'mpf_rrandomb': v[2] = r.randint(1, 10); v[3] = r.randint(-20, 20)
    elif name == 'mpz_init2': v[bi[0]] = r.choice([0, 1, 64, 65, 5000])
    elif name == 'mpf_init2' or name == 'mpf_set_prec': v[bi[0]] = r.choice([1, 53, 64, 65, 128, 700, 3000])
    elif name in ('mpq_div',):
        qi = [i for i, ch in enumerate(sig) if ch == 'q']
        if v[qi[1]] == 0: v[qi[1]] = Fraction(r.choice([1, -3, 7]), r.choice([1, 2, 9]))
    elif name == 'mpq_inv':
        qi = [i for i, ch in enumerate(sig) if ch == 'q']
        if v[qi[0]] == 0: v[qi[0]] = Fraction(-2, 3)
    elif name == 'mpq_set_den':
        if v[zi[0]] == 0: v[zi[0]] = 3
    elif name in ('mpq_set_si', 'mpq_set_ui', 'mpq_cmp_si', 'mpq_cmp_ui'):
        if v[-1] == 0: v[-1] = r.choice([1, 5, M])
    elif name in ('mpf_div', 'mpf_reldiff', 'mpf_ui_div'):
        fi = [i for i, ch in enumerate(sig) if ch == 'f']
        k = fi[1] if name == 'mpf_div' else fi[0]
        if v[k][0] == 0: v[k] = (r.choice([3, -5, 1]), r.randint(-5, 5))
    elif name == 'mpf_sqrt':
        fi = [i for i, ch in enumerate(sig) if ch == 'f']; v[fi[0]] = (abs(v[fi[0]][0]), v[fi[0]][1])
    elif name == 'mpf_get_str':
        v[2] = r.choice([2, 10, 16, 36, 62, -16, r.randint(2, 62)]); v[3] = r.choice([0, 1, 5, 20, 50])
    elif name == 'mpf_eq': v[2] = r.choice([0, 1, 53, 64, 65, 128, 1000])
    elif name == 'mpz_array_init': return None
    for i, ch in enumerate(sig):
        if ch == 'b' and v[i] is not None and v[i] > (1 << 21): v[i] = r.randint(0, 300)
        if ch == 'i' and name in ('mpz_sizeinbase',): v[i] = r.randint(2, 62)
    if name.endswith('_2exp') or name.endswith('_2exp_p'):
        for i in bi: v[i] = r.choice([0, 1, 63, 64, 65, 128, r.randint(0, 400)])
    return v

# mpq results that leave the variable non-canonical until mpq_canonicalize is called
NEEDS_CANON = {'mpq_set_num', 'mpq_set_den', 'mpq_set_si', 'mpq_set_ui', 'mpq_set_str'}

def tok(ch, name, val):
    """token for a scalar argument"""
    import rpc
    if ch in 'usibn': return '#%d' % val
    if ch == 'd':
        if math.isinf(val): return 'dinf' if val > 0 else 'd-inf'
        return 'd' + val.hex()
    if ch == 't': return rpc.shex(val)
    if ch == '&': return '&'
    if ch == 'C': return '0'
    raise ValueError(ch)

def fcmd(var, precbits, f):
    """'f' command storing mant*2^e2 in `var` with the given precision (truncating low bits that do not fit)"""
    mant, e2 = f
    if mant == 0: return 'f %s %d 0 0 0' % (var, precbits)
    s = e2 % 64; m = abs(mant) << s; e = (e2 - s) // 64
    pl = max(2, (precbits + 127) // 64); size = gen.nlimbs(m)
    if size > pl + 1:
        m >>= 64 * (size - pl - 1); e += size - pl - 1; size = pl + 1
        if m == 0: m = 1
    return 'f %s %d %d %d %x' % (var, precbits, size + e, -size if mant < 0 else size, m)
