"""C12 rational arithmetic is exact and every result canonical."""
import random, math
from fractions import Fraction
from runner import Case
from rpc import hx, I, split_reply
import gen, models
from gen import B, M
from c11 import dtok, ftoks, rand_double

PID = 'C12'
LEVEL = 'exploration'
VARIANTS = {'quick': ['asan', 'plain'], 'thorough': ['asan', 'plain', 'asan-tdbg']}
RULE = ('pairs of canonical rationals built from chosen g1=gcd(den1,den2), g2=gcd(sum,g1), gcd(num1,den2), gcd(num2,den1) each trivial / '
        'non-trivial / huge (every arm of the Henrici reductions in add/sub and the cross-cancellation in mul/div), integers, zero, negatives, '
        'powers of two in numerator or denominator with mul_2exp/div_2exp shift counts crossing 64 and 128, inv of negatives and +-1/n, div by '
        'negative, aliased destinations; mpq_canonicalize on arbitrary (num, den != 0) incl. negative den; set_d/set_f/set_z/set_si/set_ui/set_num/'
        'set_den/get_num/get_den. Oracle: fractions.Fraction; the result numerator and denominator must equal the Fraction\'s (canonical by '
        'construction). distinct = (function, gcd pattern, size buckets, signs, alias); trivial = an operand 0')
ASSUMPTIONS = ['fractions.Fraction is exact and canonical', 'inputs are canonical (required by the manual); division by zero is not generated']

def szb(n):
    return n if n < 12 else 12 + n.bit_length()

def canon_pair(r, mode, sz):
    """two canonical rationals with a chosen gcd structure"""
    def co(n, avoid=1):
        x = gen.nat(r, n) or 1
        while math.gcd(x, avoid) != 1: x += 1
        return x
    g1 = {'1': 1, 's': r.choice([2, 3, 6, 1 << 20, 210]), 'h': gen.nat(r, sz)}[mode[0]]
    gx = {'1': 1, 's': r.choice([2, 5, 7, 1 << 10]), 'h': gen.nat(r, max(1, sz - 1))}[mode[1]]
    gy = {'1': 1, 's': r.choice([3, 4, 11]), 'h': gen.nat(r, max(1, sz - 1))}[mode[2]]
    # a = (n1*gy)/(d1*g1*gx) ; b = (n2*gx)/(d2*g1*gy)  then reduce with Fraction (canonical inputs)
    a = Fraction(co(sz) * gy * r.choice([1, -1]), co(sz) * g1 * gx)
    b = Fraction(co(sz) * gx * r.choice([1, -1]), co(sz) * g1 * gy)
    if mode[3] == 'c' and a.denominator == b.denominator:
        pass
    if mode[3] == 'c':
        # force gcd(sum, g1) non-trivial: make numerators cancel modulo a factor of the common denominator
        d = a.denominator
        b = Fraction(-a.numerator + d * r.choice([0, 1, -1, 2]) * r.choice([1, g1]), d) if r.random() < 0.7 else Fraction(a.numerator * r.choice([1, -1]), d)
    return a, b

MODES = [x + y + z + w for x in '1sh' for y in '1sh' for z in '1sh' for w in 'nc']

def specs(rng, tier, wid, nw, env):
    q = tier == 'quick'; k = 0
    for m in MODES:
        for sz in ([1, 2, 3, 6] if q else [1, 2, 3, 4, 6, 10, 20, 60]):
            for rep in range(2 if q else 6):
                k += 1
                if k % nw == wid: yield ('arith', m, sz, rng.choice(['w', 'w=a', 'w=b', 'a=b', 'w=a=b']), rng.getrandbits(48))
    N = 6000 if q else 400000
    for i in range(N):
        c = rng.random()
        if c < 0.45: yield ('arith', rng.choice(MODES), rng.choice([1, 1, 2, 3, 5]), rng.choice(['w', 'w', 'w=a', 'w=b', 'a=b', 'w=a=b']), rng.getrandbits(48))
        elif c < 0.6: yield ('2exp', rng.getrandbits(48))
        elif c < 0.8: yield ('canon', rng.getrandbits(48))
        else: yield ('set', rng.getrandbits(48))

def qset(name, f):
    return 'q %s %s %s' % (name, hx(f.numerator), hx(f.denominator))

def qchk(tok, want, fn, d, out):
    n_, d_ = tok.split('/'); n_, d_ = I(n_), I(d_)
    if (n_, d_) != (want.numerator, want.denominator):
        if d_ != 0 and d_ > 0 and Fraction(n_, d_) == want: out.append(('%s:not-canonical' % fn, d + ' got=%s' % tok[:80]))
        else: out.append(('%s:wrong-value' % fn, d + ' got=%s want=%s/%s' % (tok[:80], hx(want.numerator)[:40], hx(want.denominator)[:40])))

def build(spec, env):
    kind = spec[0]; r = random.Random(spec[-1])
    if kind == 'arith':
        _, mode, sz, alias, _s = spec
        a, b = canon_pair(r, mode, sz)
        c = r.random()
        if c < 0.08: a = Fraction(0)
        elif c < 0.16: b = Fraction(gen.val(r, 2))
        elif c < 0.2: a = Fraction(1, a.denominator)
        if alias in ('a=b', 'w=a=b'): b = a
        W, A, Bq = {'w': ('Q0', 'Q1', 'Q2'), 'w=a': ('Q1', 'Q1', 'Q2'), 'w=b': ('Q2', 'Q1', 'Q2'), 'a=b': ('Q0', 'Q1', 'Q1'), 'w=a=b': ('Q1', 'Q1', 'Q1')}[alias]
        ops = [('mpq_add', a + b), ('mpq_sub', a - b), ('mpq_mul', a * b)] + ([('mpq_div', a / b)] if b != 0 else [])
        cmds = []
        for fn, _e in ops:
            cmds += [qset('Q0', Fraction(r.randint(-5, 5), 7)), qset('Q1', a), qset('Q2', b)]
            cmds += ['shrink N%s' % W[1:], 'shrink D%s' % W[1:]] if r.random() < 0.5 else ['ping', 'ping']
            cmds.append('c %s %s %s %s' % (fn, W, A, Bq))
        un = [('mpq_neg', -a), ('mpq_abs', abs(a))] + ([('mpq_inv', 1 / a)] if a != 0 else [])
        for fn, _e in un:
            for dst in ('Q0', 'Q1'):
                cmds += [qset('Q1', a), 'c %s %s Q1' % (fn, dst)]
        def check(rep, a=a, b=b, ops=ops, un=un, alias=alias, mode=mode):
            out = []; d = 'mode=%s alias=%s a=%s/%s b=%s/%s' % (mode, alias, hx(a.numerator)[:40], hx(a.denominator)[:40], hx(b.numerator)[:40], hx(b.denominator)[:40])
            for i, (fn, e) in enumerate(ops):
                v, _ = split_reply(rep[6 * i + 5]); qchk(v[0], e, fn + ':' + alias, d, out)
            base = 6 * len(ops)
            j = 0
            for fn, e in un:
                for dst in ('w', 'w=a'):
                    v, _ = split_reply(rep[base + 2 * j + 1]); qchk(v[0], e, fn + ':' + dst, d, out); j += 1
            return out
        return Case(cmds, check, len(ops) + 2 * len(un), ('arith', mode, szb(sz), alias, a < 0, b < 0), trivial=(a == 0 or b == 0))
    if kind == '2exp':
        n = gen.val(r, 3); dd = abs(gen.val(r, 3, False)) or 1
        if r.random() < 0.5: n <<= r.choice([1, 63, 64, 65, 128, 130])
        if r.random() < 0.5: dd <<= r.choice([1, 63, 64, 65, 128, 130])
        a = Fraction(n, dd); sh = r.choice([0, 1, 63, 64, 65, 127, 128, 129, r.randint(0, 300)])
        cmds = [qset('Q1', a), 'c mpq_mul_2exp Q0 Q1 #%d' % sh, 'c mpq_div_2exp Q2 Q1 #%d' % sh, 'c mpq_mul_2exp Q1 Q1 #%d' % sh, qset('Q1', a), 'c mpq_div_2exp Q1 Q1 #%d' % sh]
        def check(rep, a=a, sh=sh):
            out = []; d = 'a=%s/%s shift=%d' % (hx(a.numerator)[:50], hx(a.denominator)[:50], sh)
            for idx, fn, e in ((1, 'mpq_mul_2exp', a * (1 << sh)), (2, 'mpq_div_2exp', a / (1 << sh)), (3, 'mpq_mul_2exp:w=a', a * (1 << sh)), (5, 'mpq_div_2exp:w=a', a / (1 << sh))):
                v, _ = split_reply(rep[idx]); qchk(v[0], e, fn, d, out)
            return out
        v2n = (a.numerator & -a.numerator).bit_length() - 1 if a else 0; v2d = (a.denominator & -a.denominator).bit_length() - 1
        return Case(cmds, check, 4, ('2exp', min(v2n, 140), min(v2d, 140), sh if sh < 3 else 3 + sh // 32), trivial=(a == 0))
    if kind == 'canon':
        g = r.choice([1, 2, gen.nat(r, r.randint(1, 3)), 1 << r.randint(1, 130)])
        n = gen.val(r, 3) * g; dd = (gen.val(r, 3) or 1) * g
        if dd == 0: dd = -3
        cmds = ['q Q1 %s %s' % (hx(n), hx(dd)), 'c mpq_canonicalize Q1']
        def check(rep, n=n, dd=dd):
            out = []; v, _ = split_reply(rep[1]); qchk(v[0], Fraction(n, dd), 'mpq_canonicalize', 'num=%s den=%s' % (hx(n)[:60], hx(dd)[:60]), out); return out
        return Case(cmds, check, 1, ('canon', n < 0, dd < 0, min(g.bit_length(), 200), n == 0), trivial=(n == 0))
    if kind == 'set':
        z = gen.val(r, 4); dd = rand_double(r)
        while math.isinf(dd): dd = rand_double(r)
        si = max(-(1 << 63), min((1 << 63) - 1, gen.val(r, 1))); ui = r.choice([1, 2, r.getrandbits(64) or 1, M]); un = r.getrandbits(r.choice([1, 64]))
        g = math.gcd(abs(si), ui) if si else ui; g2 = math.gcd(un, ui) if un else ui
        fm = gen.val(r, 3); fe = r.randint(-200, 200)
        a = Fraction(gen.val(r, 2), abs(gen.val(r, 2, False)) or 1)
        cmds = ['z Z1 %s' % hx(z), 'c mpq_set_z Q1 Z1', 'c mpq_set_d Q2 %s' % dtok(dd), ftoks('F1', fm, fe), 'c mpq_set_f Q3 F1',
                'c mpq_set_si Q4 #%d #%d' % (si // g, ui // g), 'c mpq_set_ui Q5 #%d #%d' % (un // g2, ui // g2),
                qset('Q6', a), 'c mpq_get_num Z2 Q6', 'c mpq_get_den Z3 Q6', 'c mpq_set Q7 Q6', 'c mpq_set_num Q7 Z1', 'c mpq_set_den Q7 Z1' if z else 'ping', 'c mpq_swap Q6 Q1']
        def check(rep, z=z, dd=dd, fm=fm, fe=fe, si=si, ui=ui, un=un, g=g, g2=g2, a=a):
            out = []
            v, _ = split_reply(rep[1]); qchk(v[0], Fraction(z), 'mpq_set_z', 'z=%s' % hx(z)[:60], out)
            v, _ = split_reply(rep[2]); qchk(v[0], Fraction(dd), 'mpq_set_d', 'd=%s' % dd.hex(), out)
            v, _ = split_reply(rep[4]); qchk(v[0], Fraction(fm) * Fraction(2) ** fe, 'mpq_set_f', 'f=%s*2^%d' % (hx(fm)[:40], fe), out)
            v, _ = split_reply(rep[5]); qchk(v[0], Fraction(si // g, ui // g), 'mpq_set_si', 'n=%d d=%d' % (si // g, ui // g), out)
            v, _ = split_reply(rep[6]); qchk(v[0], Fraction(un // g2, ui // g2), 'mpq_set_ui', 'n=%d d=%d' % (un // g2, ui // g2), out)
            v, _ = split_reply(rep[8])
            if I(v[0]) != a.numerator: out.append(('mpq_get_num:wrong', str(a)))
            v, _ = split_reply(rep[9])
            if I(v[0]) != a.denominator: out.append(('mpq_get_den:wrong', str(a)))
            v, _ = split_reply(rep[10]); qchk(v[0], a, 'mpq_set', str(a)[:60], out)
            v, _ = split_reply(rep[11]); n_, d_ = v[0].split('/')
            if I(n_) != z or I(d_) != a.denominator: out.append(('mpq_set_num:wrong', 'got=%s' % v[0][:60]))
            if z:
                v, _ = split_reply(rep[12]); n_, d_ = v[0].split('/')
                if I(n_) != z or I(d_) != z: out.append(('mpq_set_den:wrong', 'got=%s' % v[0][:60]))
            v, _ = split_reply(rep[13])
            if v[0].split('/') != [hx(z), '1'] or v[1].split('/') != [hx(a.numerator), hx(a.denominator)]: out.append(('mpq_swap:wrong', 'got=%s' % v[:2]))
            return out
        return Case(cmds, check, 11, ('set', z < 0, min(abs(z).bit_length(), 260) // 16, math.frexp(dd)[1] // 32))
    raise ValueError(kind)
