"""C18 gmp_printf / gmp_scanf follow C semantics extended to MPIR types."""
import random, math, itertools
from fractions import Fraction
from runner import Case
from rpc import hx, I, split_reply, parse_f, shex, unhexs
import gen, models, api
from gen import B, M

PID = 'C18'
LEVEL = 'exploration'
VARIANTS = {'quick': ['asan', 'plain'], 'thorough': ['asan', 'plain', 'asan-tdbg']}
RULE = ('cross product flags subsets of {-,+,space,0} (d,i) / {-,#,0} (o,x,X, non-negative values) x width {none,1,5,40,* positive,* negative} x '
        'precision {none,.0,.1,.7,.40,.* (0,1,9,-1)} x conversions d,i,o,x,X x values of every sign and digit count that fit a long: gmp_snprintf("%Z..") '
        'must equal the C library\'s snprintf("%l..") in the same process byte for byte and in return value; values beyond long: the same layout '
        'model (validated against libc on the fitting values of the same run) applied to Python digits; %Q (den only when needed, # on both parts), '
        '%N (negative size = negative), %M vs %l; %F e/f/g for values whose decimal expansion is exact within the precision, compared with libc on '
        'the equal double; asprintf/vasprintf at every output length 1..1300 (block exactly length+1 by the recorder); %Ff/%Fe of 1..12-limb integer parts with dyadic fractions against the exact decimal expansion (precision >= digits needed); mixed standard conversions; snprintf with every size 0..len+1 (fenced buffer); asprintf (block strlen+1 by the '
        'recorder), sprintf, v* forms, obstack_printf incl. one object grown by up to 1000 appends across obstack chunks and single fields wider than a chunk; sscanf/fscanf read-back of everything printed, %Zi base detection, widths, %*, literals, %n, '
        'mismatch and EOF, mixed with standard conversions compared with libc sscanf. MPIR\'s documented deviations (signed o/x/X with +/space, empty '
        'precision, # with precision 0 on zero) are outside the C comparison. distinct = (conversion, flags, width class, precision class, value class)')
ASSUMPTIONS = ['glibc snprintf/sscanf are the reference for C semantics', 'locale "C"']

WIDTHS = ['', '1', '5', '40', '*+', '*-']
PRECS = ['', '.0', '.1', '.7', '.40', '.*0', '.*1', '.*9', '.*-1']
VALS = [0, 1, -1, 7, -7, 9, 10, 255, -255, 4095, 123456789, -123456789, (1 << 31) - 1, -(1 << 31), 1 << 32, (1 << 63) - 1, -(1 << 63), -(1 << 63) + 1, 1 << 62]

def layout(flags, width, prec, conv, value, digits_fn=None):
    """C rules for integer conversions (used for values beyond long and validated against libc elsewhere)"""
    neg = value < 0; a = abs(value)
    base = {'d': 10, 'i': 10, 'o': 8, 'x': 16, 'X': -16}[conv]
    ds = models.digits(a, base)
    if prec is not None and prec == 0 and a == 0: ds = ''
    if prec is not None and len(ds) < prec: ds = '0' * (prec - len(ds)) + ds
    pre = ''
    if '#' in flags:
        if conv in 'xX' and a != 0: pre = '0' + conv
        if conv == 'o' and not ds.startswith('0'): ds = '0' + ds
    sign = '-' if neg else ('+' if '+' in flags else (' ' if ' ' in flags else ''))
    body = sign + pre + ds
    if width is not None and len(body) < width:
        if '-' in flags: body = body + ' ' * (width - len(body))
        elif '0' in flags and prec is None: body = sign + pre + '0' * (width - len(body)) + ds
        else: body = ' ' * (width - len(body)) + body
    return body

def fmt_parts(flags, w, p, conv):
    """returns (format for Z, format for l, star args list, effective width, effective precision)"""
    stars = []; ws = w; ps = p; width = None; prec = None; fl = set(flags)
    if w.startswith('*'):
        wv = 12 if w == '*+' else -12; stars.append(wv); ws = '*'; width = abs(wv)
        if wv < 0: fl.add('-')
    elif w: width = int(w)
    if p.startswith('.*'):
        pv = int(p[2:]); stars.append(pv); ps = '.*'; prec = pv if pv >= 0 else None
    elif p: prec = int(p[1:])
    f = ''.join(flags)
    return '%' + f + ws + ps + 'Z' + conv, '%' + f + ws + ps + 'l' + conv, stars, width, prec, fl

def flagsets(conv):
    base = ['-', '+', ' ', '0'] if conv in 'di' else ['-', '#', '0']
    out = []
    for k in range(len(base) + 1):
        for c in itertools.combinations(base, k):
            for perm in ([c] if k < 2 else [c, c[::-1]]):
                out.append(perm)
    return out

def specs(rng, tier, wid, nw, env):
    q = tier == 'quick'; k = 0
    for conv in 'dioxX':
        for fl in flagsets(conv):
            for w in WIDTHS:
                for p in PRECS:
                    k += 1
                    if k % nw == wid: yield ('int', conv, list(fl), w, p, rng.getrandbits(48))
    # %Ff / %Fe on values far outside double's exact range (1..12-limb integer parts, dyadic fractions), exact-decimal oracle
    for limbs in range(1, 13):
        for conv in 'fe':
            for j in range(24 if q else 300):
                k += 1
                if k % nw == wid: yield ('bigfloat', limbs, conv, rng.getrandbits(48))
    # gmp_obstack_printf: one growing object across obstack chunk boundaries (about 4 kB), with padding runs, and single fields wider than a chunk
    for i in range(24 if q else 200):
        k += 1
        if k % nw == wid: yield ('obgrow', rng.getrandbits(48))
    # gmp_asprintf / gmp_vasprintf at every output length 1..1300 (the working buffer starts at 256 bytes and doubles: the final block must be
    # exactly length+1 whatever slack is left, A47) x format shapes with and without plain C conversions
    for L0 in range(1, 1301, 20):
        k += 1
        if k % nw == wid: yield ('aslen', L0, min(L0 + 19, 1300), rng.getrandbits(48))
    N = 12000 if q else 200000
    for i in range(N):
        c = rng.random()
        if c < 0.2: yield ('snsize', rng.getrandbits(48))
        elif c < 0.35: yield ('qnm', rng.getrandbits(48))
        elif c < 0.5: yield ('float', rng.getrandbits(48))
        elif c < 0.62: yield ('mixed', rng.getrandbits(48))
        elif c < 0.72: yield ('entry', rng.getrandbits(48))
        else: yield ('scan', rng.getrandbits(48))

def hexs(s): return shex(s.encode('latin-1') if isinstance(s, str) else s)

def build(spec, env):
    kind = spec[0]; r = random.Random(spec[-1])
    if kind == 'int':
        _, conv, flags, w, p, _s = spec
        fz, fl_, stars, width, prec, eff = fmt_parts(flags, w, p, conv)
        vals = VALS if conv in 'di' else [v for v in VALS if v >= 0]
        vals = vals + [r.getrandbits(r.randint(1, 62)) * (r.choice([1, -1]) if conv in 'di' else 1) for _ in range(3)]
        bigs = [gen.signed(r, r.randint(2, 4), None, 0.5 if conv in 'di' else 0.0) for _ in range(2)] + [1 << 64, (1 << 64) - 1] + ([-(1 << 64)] if conv in 'di' else [])
        cmds = []
        st = ' '.join('#%d' % s for s in stars)
        for v in vals:
            cmds += ['z Z1 %s' % hx(v), 'pf snprintf 300 %s %s Z1' % (hexs('[' + fz + ']'), st), 'cpf 300 %s %s #%d' % (hexs('[' + fl_ + ']'), st, v)]
        for v in bigs:
            cmds += ['z Z1 %s' % hx(v), 'pf snprintf 600 %s %s Z1' % (hexs('[' + fz + ']'), st)]
        def check(rep, vals=vals, bigs=bigs, fz=fz, conv=conv, width=width, prec=prec, eff=eff):
            out = []
            fcls = ''.join(sorted(eff))
            for i, v in enumerate(vals):
                if '#' in eff and prec == 0 and v == 0: continue      # documented MPIR deviation, outside the C comparison
                a, _ = split_reply(rep[3 * i + 1]); b, _ = split_reply(rep[3 * i + 2])
                ga = unhexs(a[1]).decode('latin-1'); gb = unhexs(b[1]).decode('latin-1')
                if a != b:
                    out.append(('printf:differs-from-C:conv=%s flags=%s width=%s prec=%s' % (conv, fcls, 'none' if width is None else ('neg*' if '*-' in str(spec[3]) else 'set'), 'none' if prec is None else ('0' if prec == 0 else 'set') if not str(spec[4]).startswith('.*-') else 'neg*'),
                                'fmt=%r value=%d mpir=%r (ret %s) libc=%r (ret %s)' % (fz, v, ga, a[0], gb, b[0])))
                m = '[' + layout(eff, width, prec, conv, v) + ']'
                if m != gb: return [('HARNESS:layout-model-disagrees-with-libc', 'fmt=%r value=%d model=%r libc=%r' % (fz, v, m, gb))]
            for j, v in enumerate(bigs):
                a, _ = split_reply(rep[3 * len(vals) + 2 * j + 1]); ga = unhexs(a[1]).decode('latin-1'); m = '[' + layout(eff, width, prec, conv, v) + ']'
                if ga != m or int(a[0]) != len(m):
                    out.append(('printf:big-value-layout:conv=%s flags=%s' % (conv, fcls), 'fmt=%r value=%s mpir=%r model=%r' % (fz, hx(v), ga, m)))
            return [o for o in out if not o[0].startswith('HARNESS')] if not any(o[0].startswith('HARNESS') for o in out) else out
        wc = 'none' if not w else w; pc = 'none' if not p else p
        return Case(cmds, check, len(vals) * 2 + len(bigs), ('int', conv, tuple(flags), wc, pc))
    if kind == 'snsize':
        z = r.choice([gen.val(r, 3), 0, -1, 1 << 70]); fmt = r.choice(['%Zd', 'ab%Zxcd', '%20Zd|', '%-9Zo.', '%Zd %s', '%#ZX'])
        extra = hexs('tail') if '%s' in fmt else ''
        body = {'%Zd': str(z), 'ab%Zxcd': 'ab' + models.digits(z, 16) + 'cd', '%20Zd|': str(z).rjust(20) + '|', '%-9Zo.': models.digits(z, 8).ljust(9) + '.', '%Zd %s': str(z) + ' tail', '%#ZX': ('-' if z < 0 else '') + ('0X' if z else '') + models.digits(abs(z), -16)}[fmt]
        fn = r.choice(['snprintf', 'vsnprintf'])
        cmds = ['z Z1 %s' % hx(z)]
        for size in range(0, len(body) + 3): cmds.append('pf %s %d %s Z1 %s' % (fn, size, hexs(fmt), extra))
        def check(rep, body=body, fmt=fmt, fn=fn):
            out = []
            for size in range(0, len(body) + 3):
                a, _ = split_reply(rep[1 + size]); ret = int(a[0]); got = unhexs(a[1]).decode('latin-1') if a[1] != '-' else ''
                if ret != len(body): out.append(('gmp_%s:return-not-full-length' % fn, 'fmt=%r size=%d ret=%d want=%d' % (fmt, size, ret, len(body))))
                want = body[:max(0, size - 1)]
                if size > 0 and got != want: out.append(('gmp_%s:wrong-truncated-content' % fn, 'fmt=%r size=%d got=%r want=%r' % (fmt, size, got, want)))
            return out
        return Case(cmds, check, len(body) + 3, ('snsize', fmt, fn, min(len(body), 40)))
    if kind == 'obgrow':
        z = gen.val(r, r.choice([1, 2, 3])); zz = r.choice([7, -255, 0, gen.val(r, 1)])
        if r.random() < 0.6:
            w1 = r.choice([11, 30, 64, 200]); w2 = r.choice([9, 25, 100]); reps = r.choice([60, 150, 400, 1000])
            fmt = '[%%%dZd|%%d|%%-%dZd]' % (w1, w2); one = '[' + str(z).rjust(w1) + '|' + str(i_ := r.randint(-99999, 99999)) + '|' + str(zz).ljust(w2) + ']'
            args = 'Z1 #%d Z2' % i_
        else:
            w1 = r.choice([4000, 4080, 4090, 4096, 4100, 5000, 9000, 20000]) + r.randint(0, 9); reps = r.choice([1, 1, 2, 3])
            fl = r.choice(['', '-', '0']); fmt = '%%%s%dZd|' % (fl, w1); ds = str(z)
            one = (ds.ljust(w1) if fl == '-' else (('-' if z < 0 else '') + ds.lstrip('-').rjust(w1 - (1 if z < 0 else 0), '0') if fl == '0' else ds.rjust(w1))) + '|'
            args = 'Z1'
        cmds = ['z Z1 %s' % hx(z), 'z Z2 %s' % hx(zz), 'pf obstack:%d - %s %s' % (reps, hexs(fmt), args)]
        def check(rep, one=one, reps=reps, fmt=fmt):
            a, _ = split_reply(rep[2]); got = unhexs(a[1]).decode('latin-1') if a[1] != '-' else ''
            if got != one * reps or int(a[0]) != len(one):
                bad = next((i for i in range(min(len(got), len(one) * reps)) if got[i] != (one * reps)[i]), min(len(got), len(one) * reps))
                return [('gmp_obstack_printf:wrong', 'fmt=%r appended %d times: object of %d bytes differs from the expected %d bytes at byte %d; ret=%s want %d' % (fmt, reps, len(got), len(one) * reps, bad, a[0], len(one)))]
        return Case(cmds, check, reps, ('obgrow', fmt[:6], reps))
    if kind == 'aslen':
        _, L0, L1, _s = spec
        cmds = []; exp = []
        for L in range(L0, L1 + 1):
            z = 10 ** (L - 1) + r.randrange(10 ** (L - 1)) if L > 1 else r.randint(1, 9)
            fn = r.choice(['asprintf', 'vasprintf'])
            cmds += ['z Z1 %s' % hx(z), 'pf %s - %s Z1' % (fn, hexs('%Zd'))]; exp.append((len(cmds) - 1, str(z), '%Zd'))
            if L > 2:
                cmds.append('pf %s - %s %s Z1' % (fn, hexs('%s|%Zd'), hexs('ab'))); exp.append((len(cmds) - 1, 'ab|' + str(z)[:L - 3] if False else 'ab|' + str(z), '%s|%Zd'))
            cmds += ['z Z2 %s' % hx(-255), 'pf %s - %s #%d Z2' % (fn, hexs('%*Zx'), L)]; exp.append((len(cmds) - 1, '-ff'.rjust(L), '%*Zx'))
            cmds.append('pf %s - %s #%d #7' % (fn, hexs('%*d'), L)); exp.append((len(cmds) - 1, '7'.rjust(L), '%*d'))
            cmds.append('pf %s - %s #%d #7 Z2' % (fn, hexs('%-*d%Zd'), L)); exp.append((len(cmds) - 1, '7'.ljust(L) + '-255', '%-*d%Zd'))
        def check(rep, exp=exp):
            out = []
            for idx, want, fm in exp:
                a, _ = split_reply(rep[idx]); got = unhexs(a[1]).decode('latin-1') if a[1] != '-' else ''
                if got != want or int(a[0]) != len(want): out.append(('gmp_asprintf:wrong', 'fmt=%r length=%d ret=%s got=%r' % (fm, len(want), a[0], got[:60])))
            return out[:4]
        return Case(cmds, check, len(exp), ('aslen', L0))
    if kind == 'qnm':
        what = r.choice(['Q', 'Q', 'N', 'M'])
        conv = r.choice('dxXo'); fl = r.choice(['', '#', '-', '0', '+']) if what != 'M' else r.choice(['', '-', '0', '#'])
        w = r.choice(['', '30', '3'])
        if what == 'Q':
            qv = r.choice([api.rnd_q(r), Fraction(gen.val(r, 2)), Fraction(0)])
            if fl == '+' and conv != 'd': fl = ''
            fmt = '%' + fl + w + 'Q' + conv
            base = {'d': 10, 'x': 16, 'X': -16, 'o': 8}[conv]
            def part(v):
                ds = models.digits(abs(v), base); pre = ''
                if '#' in fl:
                    if conv in 'xX' and v != 0: pre = '0' + conv
                    if conv == 'o' and not ds.startswith('0'): ds = '0' + ds
                return pre + ds
            s = ('-' if qv < 0 else ('+' if '+' in fl else '')) + part(qv.numerator) + ('/' + part(qv.denominator) if qv.denominator != 1 else '')
            if w and len(s) < int(w):
                if '-' in fl: s = s.ljust(int(w))
                elif '0' in fl:
                    sign = s[0] if s[0] in '+-' else ''; rest = s[len(sign):]
                    pre = rest[:2] if '#' in fl and conv in 'xX' and rest[:2] in ('0x', '0X') else ''
                    s = None        # zero padding of a fraction is not specified precisely enough: only the length is judged
                else: s = s.rjust(int(w))
            cmds = ['q Q1 %s %s' % (hx(qv.numerator), hx(qv.denominator)), 'pf snprintf 900 %s Q1' % hexs(fmt)]
            def check(rep, s=s, fmt=fmt, qv=qv):
                a, _ = split_reply(rep[1]); got = unhexs(a[1]).decode('latin-1')
                if s is None:
                    if int(a[0]) != len(got) or len(got) != int(w): return [('printf:%Q-zero-pad-length', 'fmt=%r q=%s got=%r' % (fmt, qv, got))]
                    return None
                if got != s or int(a[0]) != len(s): return [('printf:%%Q-wrong:conv=%s flags=%s' % (conv, fl), 'fmt=%r q=%s got=%r want=%r' % (fmt, qv, got, s))]
            return Case(cmds, check, 1, ('Q', conv, fl, w, qv.denominator == 1, qv < 0))
        if what == 'N':
            n = r.randint(1, 4); a = gen.nat(r, n); neg = r.random() < 0.4; lead0 = r.choice([0, 0, 2])
            fmt = '%' + fl.replace('+', '') + w + 'N' + conv
            base = {'d': 10, 'x': 16, 'X': -16, 'o': 8}[conv]
            fzfmt = '%' + fl.replace('+', '') + w + 'Z' + conv
            cmds = ['l 0 %d %s' % (n + lead0, hx(a)), 'z Z1 %s' % hx(-a if neg else a), 'pf snprintf 900 %s L0 #%d' % (hexs(fmt), -(n + lead0) if neg else n + lead0), 'pf snprintf 900 %s Z1' % hexs(fzfmt)]
            def check(rep, fmt=fmt):
                a_, _ = split_reply(rep[2]); b_, _ = split_reply(rep[3])
                if a_ != b_: return [('printf:%N-differs-from-%Z', 'fmt=%r N=%r Z=%r' % (fmt, unhexs(a_[1]), unhexs(b_[1])))]
            return Case(cmds, check, 2, ('N', conv, fl, w, neg, lead0))
        v = r.choice([0, 1, M, 1 << 63, r.getrandbits(64), 255])
        conv = r.choice('duxXo'); fmt = '%' + fl + w + 'M' + conv; fmtl = '%' + fl + w + 'l' + conv
        if conv in 'du' and '#' in fl: fmt = fmt.replace('#', ''); fmtl = fmtl.replace('#', '')
        cmds = ['pf snprintf 200 %s #%d' % (hexs(fmt), v), 'cpf 200 %s #%d' % (hexs(fmtl), v)]
        def check(rep, fmt=fmt, v=v):
            a, _ = split_reply(rep[0]); b, _ = split_reply(rep[1])
            if a != b: return [('printf:%M-differs-from-%l', 'fmt=%r v=%d mpir=%r libc=%r' % (fmt, v, unhexs(a[1]), unhexs(b[1])))]
        return Case(cmds, check, 2, ('M', conv, fl, w, v.bit_length()))
    if kind == 'float':
        conv = r.choice('fFeEgG'.replace('F', 'f'))
        j = r.randint(0, 12); kq = r.getrandbits(r.randint(1, 40)) | 1
        if r.random() < 0.3: kq = r.randint(0, 999)
        x = Fraction(kq, 1 << j) * r.choice([1, 1, -1])
        if conv in 'fF': prec = r.choice([j, j + 1, j + 5, 30]); ok = True
        else:
            # exact only if the number of significant decimal digits fits
            s10 = str(abs(x.numerator) * 5 ** j).rstrip('0') if x else '0'
            nd = len(s10); prec = r.choice([max(nd - 1, 0), nd, nd + 3, 25]) if conv in 'eE' else r.choice([max(nd, 1), nd + 2, 30])
        fl = r.choice(['', '', '-', '+', ' ', '0']); w = r.choice(['', '', '25', '4'])      # '#' is documented for integer bases only
        fz = '%' + fl + w + '.' + str(prec) + 'F' + conv; fc = '%' + fl + w + '.' + str(prec) + conv
        d = float(x)
        jj = x.denominator.bit_length() - 1
        cmds = [api.fcmd('F1', 256, (x.numerator, -jj)), 'pf snprintf 300 %s F1' % hexs('[' + fz + ']'), 'cpf 300 %s d%s' % (hexs('[' + fc + ']'), d.hex())]
        def check(rep, fz=fz, x=x):
            a, _ = split_reply(rep[1]); b, _ = split_reply(rep[2])
            if a != b: return [('printf:%%F-differs-from-C-on-exact-value:conv=%s flags=%s' % (conv, fl), 'fmt=%r value=%s mpir=%r libc=%r' % (fz, x, unhexs(a[1]), unhexs(b[1])))]
        return Case(cmds, check, 2, ('float', conv, fl, w, prec if prec < 14 else 14, x < 0, x == int(x)))
    if kind == 'bigfloat':
        _, limbs, conv, _s = spec
        j = r.choice([0, 0, 1, 3, 7, 12]); m = gen.nat(r, limbs, r.choice(['rand', 'ones', 'topmax', 'special', 'rand'])) or 1
        if r.random() < 0.3: m = (1 << (64 * limbs)) - r.choice([1, 2, 1 << 32])
        neg = r.random() < 0.4
        big = m * 5 ** j; ds = str(big); ip = m >> j; fr = str((m & ((1 << j) - 1)) * 5 ** j).rjust(j, '0') if j else ''
        fl = r.choice(['', '', '-', '+', ' ', '0']); w = r.choice(['', '', str(len(ds) + 9), '4'])
        sign = '-' if neg else ('+' if '+' in fl else (' ' if ' ' in fl else ''))
        if conv == 'f':
            prec = r.choice([j, j, j + 1, j + 4, 40]); body = str(ip) + ('.' + fr + '0' * (prec - j) if prec > 0 else '')
        else:
            sig = ds.rstrip('0') or '0'; nd = len(sig); prec = r.choice([nd - 1, nd - 1, nd, nd + 6]); e10 = len(ds) - 1 - j
            body = sig[0] + ('.' + sig[1:].ljust(prec, '0') if prec > 0 else '') + 'e' + ('-' if e10 < 0 else '+') + str(abs(e10)).rjust(2, '0')
        want = sign + body
        if w and len(want) < int(w):
            pad = int(w) - len(want)
            want = want + ' ' * pad if '-' in fl else (sign + '0' * pad + body if '0' in fl else ' ' * pad + want)
        fz = '%' + fl + w + '.' + str(prec) + 'F' + conv
        cmds = [api.fcmd('F1', 64 * (limbs + 2), (-m if neg else m, -j)), 'gf F1', 'pf snprintf 900 %s F1' % hexs('[' + fz + ']')]
        def check(rep, fz=fz, want=want, m=m, j=j, neg=neg):
            p_, e_, sz_, mag_ = parse_f(rep[1].split()[0])
            if models.mpf_value(p_, e_, sz_, mag_) != Fraction(-m if neg else m, 1 << j): return [('harness:bigfloat-value-not-stored-exactly', rep[1][:80])]
            a, _ = split_reply(rep[2]); got = unhexs(a[1]).decode('latin-1')
            if got != '[' + want + ']' or int(a[0]) != len(want) + 2:
                return [('printf:%%F-differs-from-exact-decimal:conv=%s' % conv, 'fmt=%r value=%s%d/2^%d mpir=%r want=%r' % (fz, '-' if neg else '', m, j, got[:120], want[:120]))]
        return Case(cmds, check, 1, ('bigfloat', conv, limbs, j, fl, bool(w), prec - j if conv == 'f' else 0))
    if kind == 'mixed':
        z = gen.val(r, 3); qv = api.rnd_q(r)
        pieces = [('%s', hexs('str'), 'str'), ('%d', '#-42', '-42'), ('%5.2f', 'd0x1.8p+1', ' 3.00'), ('%c', '#65', 'A'), ('%%', None, '%'), ('%Zd', 'Z1', str(z)), ('%Zx', 'Z1', models.digits(z, 16)),
                  ('%lu', '#%d' % M, str(M)), ('%-6dX', '#7', '7     X'), ('%Qd', 'Q1', str(qv.numerator) + ('/' + str(qv.denominator) if qv.denominator != 1 else '')), ('%e', 'd0x1p+10', '1.024000e+03'),
                  ('%hd', '#-3', '-3'), ('%08.3f', 'd-0x1.4p+0', '-001.250'), ('%x', '#255', 'ff'), ('%10s|', hexs('r'), '         r|'), ('%.2s', hexs('abcdef'), 'ab')]
        sel = [r.choice(pieces) for _ in range(r.randint(2, 7))]
        ni = sum(1 for p_ in sel if p_[1] and not p_[1].startswith('d')); ndbl = sum(1 for p_ in sel if p_[1] and p_[1].startswith('d'))
        fmt = ' '.join(p_[0] for p_ in sel); args = ' '.join(p_[1] for p_ in sel if p_[1]); want = ' '.join(p_[2] for p_ in sel)
        fn = r.choice(['snprintf', 'sprintf', 'asprintf', 'vsnprintf', 'vsprintf', 'vasprintf', 'obstack'])
        cmds = ['z Z1 %s' % hx(z), 'q Q1 %s %s' % (hx(qv.numerator), hx(qv.denominator)), 'pf %s %s %s %s' % (fn, '-' if 'sn' not in fn else '2000', hexs(fmt), args)]
        def check(rep, fmt=fmt, want=want, fn=fn):
            a, _ = split_reply(rep[2]); got = unhexs(a[1]).decode('latin-1')
            if got != want or int(a[0]) != len(want): return [('gmp_%s:mixed-format-wrong' % fn, 'fmt=%r got=%r want=%r ret=%s' % (fmt, got, want, a[0]))]
        return Case(cmds, check, 1, ('mixed', fn, tuple(p_[0] for p_ in sel)))
    if kind == 'entry':
        z = gen.val(r, 4); fmt = r.choice(['%Zd', '<%Zx>', '%30Zd', '%Zd,%Zd'])
        want = {'%Zd': str(z), '<%Zx>': '<' + models.digits(z, 16) + '>', '%30Zd': str(z).rjust(30), '%Zd,%Zd': '%d,%d' % (z, z)}[fmt]
        args = 'Z1 Z1' if fmt.count('%') == 2 else 'Z1'
        cmds = ['z Z1 %s' % hx(z)]
        fns = ['sprintf', 'snprintf', 'asprintf', 'vsnprintf', 'vsprintf', 'vasprintf', 'obstack']
        for fn in fns: cmds.append('pf %s %s %s %s' % (fn, '2000' if 'sn' in fn else '-', hexs(fmt), args))
        cmds += ['wstream -1 0', 'pf fprintf - %s %s' % (hexs(fmt), args), 'wget', 'wstream -1 1', 'pf vfprintf - %s %s' % (hexs(fmt), args), 'wget']
        def check(rep, want=want, fmt=fmt):
            out = []
            for i, fn in enumerate(fns):
                a, _ = split_reply(rep[1 + i]); got = unhexs(a[1]).decode('latin-1')
                if got != want or int(a[0]) != len(want): out.append(('gmp_%s:wrong' % fn, 'fmt=%r got=%r want=%r ret=%s' % (fmt, got[:80], want[:80], a[0])))
            for idx, fn in ((len(fns) + 2, 'fprintf'), (len(fns) + 5, 'vfprintf')):
                a, _ = split_reply(rep[idx]); w_ = unhexs(rep[idx + 1].split()[-1]).decode('latin-1')
                if w_ != want or int(a[0]) != len(want): out.append(('gmp_%s:wrong' % fn, 'fmt=%r got=%r want=%r ret=%s' % (fmt, w_[:80], want[:80], a[0])))
            return out
        return Case(cmds, check, 9, ('entry', fmt, min(len(want), 50)))
    if kind == 'scan':
        sub = r.choice(['rt', 'rt', 'rt', 'base', 'two', 'width', 'mismatch', 'eof', 'Q', 'F', 'mixed', 'fscanf'])
        z = gen.val(r, 3); z2 = gen.val(r, 2)
        if sub == 'rt':
            conv = r.choice('dxXo'); base = {'d': 10, 'x': 16, 'X': -16, 'o': 8}[conv]
            head = r.choice(['', ' ', '\n\t ']) + models.digits(z, base)
            # what follows the number must stay in the input: blanks, letters, and the characters that continue OTHER number syntaxes
            # (a radix point, an exponent, a fraction bar, a second sign)
            tail = r.choice(['', ' ', 'z', '.5', '.', ',', '/3', '-1', '+2', '@1', ':', 'g', 'p'] + (['e5', 'e', 'a'] if conv in 'do' else []))
            s = head + tail
            fn = r.choice(['sscanf', 'vsscanf'])
            cmds = ['sf %s %s %s Z1 &i' % (fn, hexs(s), hexs('%Z' + conv + '%n'))]
            def check(rep, z=z, s=s, conv=conv, fn=fn, head=head):
                a, _ = split_reply(rep[0])
                used = len(head)
                if int(a[0]) != 1 or I(a[1]) != z or int(a[2]) != used: return [('gmp_%s:%%Z%s-readback-wrong' % (fn, conv), 'input=%r got ret=%s value=%s n=%s want n=%d' % (s, a[0], a[1][:40], a[2], used))]
            return Case(cmds, check, 1, ('scan', 'rt', conv, fn, z < 0))
        if sub == 'base':
            pre, b = r.choice([('0x', 16), ('0X', 16), ('0', 8), ('', 10)])       # C-style indicators (what '#' prints); 0b is not promised for scanf
            a = abs(z) or 5; s = ('-' if z < 0 else '') + pre + models.digits(a, b)
            cmds = ['sf sscanf %s %s Z1' % (hexs(s), hexs('%Zi'))]
            def check(rep, s=s, z=z, a=a):
                x, _ = split_reply(rep[0]); want = -a if z < 0 else a
                if int(x[0]) != 1 or I(x[1]) != want: return [('gmp_sscanf:%Zi-base-detection-wrong', 'input=%r ret=%s got=%s' % (s, x[0], x[1][:40]))]
            return Case(cmds, check, 1, ('scan', 'base', pre))
        if sub == 'two':
            s = '%d, %s;' % (z, models.digits(z2, 16)); cmds = ['sf sscanf %s %s Z1 Z2 &i' % (hexs(s), hexs('%Zd , %Zx;%n'))]
            def check(rep, s=s, z=z, z2=z2):
                x, _ = split_reply(rep[0])
                if int(x[0]) != 2 or I(x[1]) != z or I(x[2]) != z2 or int(x[3]) != len(s): return [('gmp_sscanf:two-fields-wrong', 'input=%r got=%s' % (s, x))]
            return Case(cmds, check, 1, ('scan', 'two'))
        if sub == 'width':
            a = abs(z) or 77; ds = str(a); wd = r.randint(1, len(ds)); neg = r.random() < 0.3
            s = ('-' if neg else '') + ds; wd2 = wd + (1 if neg else 0)
            cmds = ['sf sscanf %s %s Z1 &s' % (hexs(s), hexs('%' + str(wd2) + 'Zd%s')), 'csf %s %s &l &s' % (hexs(s if len(ds) < 18 else s[:18]), hexs('%' + str(wd2) + 'ld%s'))]
            def check(rep, s=s, wd2=wd2, neg=neg):
                x, _ = split_reply(rep[0]); want = int(s[:wd2]) if s[:wd2] not in ('-',) else None
                rest = s[wd2:]
                if want is None:
                    if int(x[0]) != 0: return [('gmp_sscanf:width-limited-sign-only', 'input=%r width=%d got=%s' % (s, wd2, x))]
                    return None
                exp_ret = 2 if rest else 1
                if int(x[0]) != exp_ret or I(x[1]) != want or (rest and unhexs(x[2]).decode() != rest): return [('gmp_sscanf:width-limited-field-wrong', 'input=%r width=%d got=%s want=(%d,%r)' % (s, wd2, x, want, rest))]
            return Case(cmds, check, 1, ('scan', 'width', wd, neg))
        if sub == 'mismatch':
            s, f, want = r.choice([('abc', '%Zd', 0), ('12 x', '%Zd %Zd', 1), ('12,13', '%Zd;%Zd', 1), ('', '%Zd', -1), ('   ', '%Zd', -1), ('- 5', '%Zd', 0), ('12', 'x%Zd', 0), ('0x', '%Zx', 1)])
            cmds = ['z Z1 5', 'z Z2 6', 'sf sscanf %s %s Z1 Z2' % (hexs(s), hexs(f)), 'csf %s %s &l &l' % (hexs(s), hexs(f.replace('Z', 'l')))]
            def check(rep, s=s, f=f):
                x, _ = split_reply(rep[2]); y, _ = split_reply(rep[3])
                if int(x[0]) != int(y[0]): return [('gmp_sscanf:field-count-differs-from-C', 'input=%r fmt=%r mpir=%s libc=%s' % (s, f, x[0], y[0]))]
            return Case(cmds, check, 1, ('scan', 'mismatch', s, f))
        if sub == 'eof':
            cmds = ['rstream %s -1 0 0' % hexs(''), 'sf fscanf s s%s Z1' % ('%Zd'.encode().hex())]
            def check(rep):
                x, _ = split_reply(rep[1])
                if int(x[0]) != -1: return [('gmp_fscanf:EOF-not-reported', 'ret=%s' % x[0])]
            return Case(cmds, check, 1, ('scan', 'eof'))
        if sub == 'Q':
            qv = api.rnd_q(r); conv = r.choice(['d', 'x', 'i'])
            b = 16 if conv == 'x' else 10
            s = models.digits(qv.numerator, b) + ('/' + models.digits(qv.denominator, b) if qv.denominator != 1 or r.random() < 0.5 else '')
            if conv == 'i' and r.random() < 0.5: s = ('-' if qv < 0 else '') + '0x' + models.digits(abs(qv.numerator), 16) + '/0x' + models.digits(qv.denominator, 16)
            cmds = ['sf sscanf %s %s Q1' % (hexs(s), hexs('%Q' + conv))]
            def check(rep, qv=qv, s=s):
                x, _ = split_reply(rep[0]); n_, d_ = x[1].split('/')
                if int(x[0]) != 1 or (I(n_), I(d_)) != (qv.numerator, qv.denominator): return [('gmp_sscanf:%Q-wrong', 'input=%r got=%s' % (s, x))]
            return Case(cmds, check, 1, ('scan', 'Q', conv))
        if sub == 'F':
            j = r.randint(0, 10); x = Fraction(r.getrandbits(30) | 1, 1 << j) * r.choice([1, -1]); conv = r.choice('efg')
            s = r.choice(['%.15f' % float(x), '%.12e' % float(x), repr(float(x))])
            cmds = ['f F1 256 0 0 0', 'sf sscanf %s %s F1' % (hexs(s), hexs('%F' + conv))]
            def check(rep, s=s):
                v, _ = split_reply(rep[1]); p, e, sz, m = parse_f(v[1]); got = models.mpf_value(p, e, sz, m); x = Fraction(s)
                if int(v[0]) != 1 or abs(got - x) * (1 << 180) > abs(x): return [('gmp_sscanf:%F-wrong', 'input=%r got=%s' % (s, float(got)))]
            return Case(cmds, check, 1, ('scan', 'F', conv))
        if sub == 'mixed':
            s = 'id=%d name=bob val=%s f=2.5 %d' % (r.randint(-99, 99), models.digits(z, 10), z2 % 1000)
            cmds = ['sf sscanf %s %s &i &s Z1 &d &l' % (hexs(s), hexs('id=%d name=%s val=%Zd f=%lf %ld')), 'csf %s %s &i &s &l &d &l' % (hexs(s), hexs('id=%d name=%s val=%ld f=%lf %ld'))]
            def check(rep, s=s, z=z):
                x, _ = split_reply(rep[0]); y, _ = split_reply(rep[1])
                if x[0] != y[0] or x[1] != y[1] or x[2] != y[2] or I(x[3]) != z or x[4] != y[4] or x[5] != y[5]: return [('gmp_sscanf:mixed-conversions-differ-from-C', 'input=%r mpir=%s libc=%s' % (s, x, y))]
            return Case(cmds, check, 1, ('scan', 'mixed'))
        s = ' %d %s\n' % (z, models.digits(z2, 16))
        fn = r.choice(['fscanf', 'vfscanf'])
        cmds = ['rstream %s -1 0 %d' % (hexs(s + 'rest'), r.randint(0, 1)), 'sf %s s %s Z1 Z2' % (fn, hexs('%Zd %Zx')), 'rpos']
        def check(rep, z=z, z2=z2, s=s, fn=fn):
            x, _ = split_reply(rep[1])
            if int(x[0]) != 2 or I(x[1]) != z or I(x[2]) != z2: return [('gmp_%s:wrong' % fn, 'input=%r got=%s' % (s, x))]
            nxt = int(rep[2].split()[3].split('=')[1])
            if nxt != ord('\n'): return [('gmp_%s:stream-position-wrong' % fn, 'next char=%d' % nxt)]
        return Case(cmds, check, 1, ('scan', fn))
    raise ValueError(kind)
