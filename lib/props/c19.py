"""C19 random numbers: range, reproducibility from the seed, equivalent copies, no gross non-uniformity."""
import random, math
from fractions import Fraction
from runner import Case
from rpc import hx, I, split_reply, parse_f
import gen, models, api
from gen import B, M

PID = 'C19'
LEVEL = 'exploration'
VARIANTS = {'quick': ['asan', 'plain'], 'thorough': ['asan', 'plain']}
RULE = ('[also: uniformity batteries for mpn_urandomm over the same moduli as mpz_urandomm incl. power-of-two top limbs over non-zero low limbs; slow-start LC states (a=5,c=1 ..., tiny seeds) whose draws have leading zero limbs, judged by range/format only] generators: Mersenne Twister, default, lc_2exp (several a,c,m2exp), lc_2exp_size for every supported size (sampled in quick; unsupported '
        'sizes must return 0); seeds 0, 1, 2^32, 2^64-1, multi-limb, negative (-1..-4, -2^64, multi-limb); range predicates on every draw of mpz_urandomb/rrandomb/urandomm, mpn_urandomb/'
        'urandomm/randomb/rrandom, gmp_urandomb_ui/urandomm_ui, mpf_urandomb (value in [0,1), format by the driver monitor) over bit counts 0,1,31..33,'
        '63..65,127..129,19936..19938,10^5 and moduli 1,2,3,2^k,2^k+-1, all-ones, multi-limb with top limb 1; sequence equality for two states with the '
        'same algorithm and seed and for a state and its gmp_randinit_set copy taken at an arbitrary point of a mixed request history (the original '
        'must be unaffected by re-initialising the copy); lc_2exp with m2exp 32..300 x every request size 1..420 (1399 thorough) drawn by two same-seed states into destinations with different old contents; uniformity batteries of N draws (2^15 quick, 2^17 thorough): per-bit one counts (|z|>8 '
        'fails), top-8-bit buckets and urandomm buckets with exact expected counts (chi-square z>8 fails), and for LC generators no output bit may be '
        'exactly periodic with a power-of-two period <= 2^12. distinct = (test, generator, request shape)')
ASSUMPTIONS = ['fixed thresholds: a correct generator trips a |z|>8 comparison with probability < 1e-14 each', 'autocorrelation is deliberately not used for verdicts (small LC generators have genuine structure)']

def gen_init(r, kind, slot):
    """commands initialising R<slot> with generator `kind`; returns (cmds, description)"""
    if kind == 'mt': return ['c gmp_randinit_mt R%d' % slot]
    if kind == 'default': return ['c gmp_randinit_default R%d' % slot]
    if kind.startswith('lcs:'): return ['c gmp_randinit_lc_2exp_size R%d #%s' % (slot, kind[4:])]
    _, a, c, m = kind.split(':')
    return ['z Z9 %s' % a, 'c gmp_randinit_lc_2exp R%d Z9 #%s #%s' % (slot, c, m)]

def seed_cmds(r, slot, seed):
    if 0 <= seed < (1 << 64) and r.random() < 0.6: return ['c gmp_randseed_ui R%d #%d' % (slot, seed)]
    return ['z Z8 %s' % hx(seed), 'c gmp_randseed R%d Z8' % slot]

GENS = ['mt', 'default', 'lcs:16', 'lcs:32', 'lcs:64', 'lcs:128', 'lc:5851f42d4c957f2d:1:64', 'lc:19660d:3c6ef35f:32', 'lc:2875a2e7b175:2739110:100']
TINYLC = ['lc:5:1:256', 'lc:5:1:128', 'lc:5:1:512', 'lc:1:1:256', 'lc:3:0:200', 'lc:9:7:1024']
SEEDS = [0, 1, 1 << 32, M, (1 << 200) + 12345, 42]
NEGSEEDS = [-1, -2, -3, -4, -(1 << 64), -((1 << 300) + 7)]       # gmp_randseed takes any mpz: negative seeds are reduced like the others (A52)
BITS = [0, 1, 31, 32, 33, 63, 64, 65, 127, 128, 129, 700, 19936, 19937, 19938]

LCX = [32, 64, 100, 128, 130, 156, 196, 200, 256, 300]

def request(r, slot, kinds=None):
    """one random request on R<slot>: (cmd, checker(values)->error or None, label)"""
    k = r.choice(kinds or ['urandomb', 'urandomb', 'rrandomb', 'urandomm', 'urandomm', 'ui_b', 'ui_m', 'mpn_b', 'mpn_m', 'randomb', 'rrandom', 'mpf'])
    if k == 'urandomb' or k == 'rrandomb':
        n = r.choice(BITS + [r.randint(0, 300)]); fn = 'mpz_' + k
        def chk(v, n=n): return None if 0 <= I(v[0]) < (1 << n) else 'value %s not below 2^%d' % (v[0][:40], n)
        return 'c %s Z1 R%d #%d' % (fn, slot, n), chk, (fn, n)
    if k == 'urandomm':
        m = r.choice([1, 2, 3, 1 << r.randint(1, 130), (1 << r.randint(2, 130)) - 1, (1 << r.randint(1, 130)) + 1, (1 << (64 * r.randint(1, 3))) - 1, (1 << (64 * r.randint(1, 3))) + r.getrandbits(20), gen.nat(r, r.randint(1, 4))])
        def chk(v, m=m): return None if 0 <= I(v[0]) < m else 'value %s not in [0, n-1] for n=%s' % (v[0][:40], hx(m)[:40])
        return ['z Z2 %s' % hx(m), 'c mpz_urandomm Z1 R%d Z2' % slot], chk, ('mpz_urandomm', m.bit_length())
    if k == 'ui_b':
        n = r.choice([0, 1, 31, 32, 33, 63, 64])
        def chk(v, n=n): return None if 0 <= int(v[0]) < (1 << n) else 'value %s not below 2^%d' % (v[0], n)
        return 'c gmp_urandomb_ui R%d #%d' % (slot, n), chk, ('gmp_urandomb_ui', n)
    if k == 'ui_m':
        m = r.choice([1, 2, 3, 1 << 32, (1 << 32) + 1, M, 1 << 63, (1 << 63) + 1, r.getrandbits(64) or 7])
        def chk(v, m=m): return None if 0 <= int(v[0]) < m else 'value %s not below %d' % (v[0], m)
        return 'c gmp_urandomm_ui R%d #%d' % (slot, m), chk, ('gmp_urandomm_ui', m.bit_length())
    if k == 'mpn_b':
        n = r.choice([1, 63, 64, 65, 128, 300]); nl = (n + 63) // 64
        def chk(v, n=n): return None if I(v[0].split('=')[1]) < (1 << n) else 'limbs not below 2^%d' % n
        return 'c mpn_urandomb L0:%d R%d #%d' % (nl, slot, n), chk, ('mpn_urandomb', n)
    if k == 'mpn_m':
        nl = r.randint(1, 4); m = gen.nat(r, nl, r.choice(['rand', 'top1', 'ones', 'bit']))
        def chk(v, m=m):
            d = {x.split('=')[0]: I(x.split('=')[1]) for x in v if '=' in x}
            return None if d['L0'] < m else 'limbs not below the modulus %s' % hx(m)[:40]
        return ['l 1 %d %s' % (nl, hx(m)), 'c mpn_urandomm L0:%d R%d L1 #%d' % (nl, slot, nl)], chk, ('mpn_urandomm', nl)
    if k in ('randomb', 'rrandom'):
        nl = r.choice([1, 2, 3, 5, 20]); fn = 'mpn_' + k
        def chk(v, nl=nl): return None if (I(v[0].split('=')[1]) >> (64 * (nl - 1))) != 0 else 'top limb is zero'
        return 'c %s L0:%d R%d #%d' % (fn, nl, slot, nl), chk, (fn, nl)
    n = r.choice([1, 2, 53, 64, 65, 128, 1000]); prec = r.choice([64, 128, 700])
    def chk(v):
        p, e, s, m = parse_f(v[0]); x = models.mpf_value(p, e, s, m)
        return None if 0 <= x < 1 else 'mpf_urandomb value %s outside [0,1)' % float(x)
    return ['f F1 %d 0 0 0' % prec, 'c mpf_urandomb F1 R%d #%d' % (slot, n)], chk, ('mpf_urandomb', n, prec)

def specs(rng, tier, wid, nw, env):
    q = tier == 'quick'; k = 0
    lcs = range(1, 140) if not q else [1, 2, 15, 16, 17, 32, 33, 64, 65, 100, 127, 128, 129, 130, 200]
    for s in lcs:
        k += 1
        if k % nw == wid: yield ('lcsize', s, rng.getrandbits(48))
    # linear congruential states with a tiny multiplier and seed (the parameters tests/rand/t-lc2exp.c uses: a = 5, c = 1): the first dozens of
    # draws have many leading zero bits / limbs, the one way to reach the 'high limbs of the draw are zero' paths (2^-64 per draw otherwise, A91).
    # Only range and format are judged here (such a generator is legitimately non-uniform).
    for g in TINYLC:
        for sd in (0, 1, 2, 7):
            for nb in ((65, 128, 200, 256) if q else (64, 65, 100, 128, 129, 192, 200, 256, 300, 1000)):
                k += 1
                if k % nw == wid: yield ('slowlc', g, sd, nb, rng.getrandbits(48))
    for g in GENS:
        for sd in SEEDS:
            for rep in range(2 if q else 10):
                k += 1
                if k % nw == wid: yield ('repro', g, sd, rng.getrandbits(48))
                k += 1
                if k % nw == wid: yield ('copy', g, sd, rng.getrandbits(48))
    # LC generators of every chunk geometry (m2exp/2 bits per step: aligned, unaligned, wider than a limb) x every request size: two states
    # with the same seed draw into destinations holding different old contents (all ones / zero / fenced limb buffers); any difference means
    # the result depends on something other than the state (A39: a stale destination limb kept when the last chunk was a multiple of 64 bits)
    for m2 in LCX:
        for nb in (range(1, 421) if q else range(1, 1400)):
            k += 1
            if k % nw == wid: yield ('lcsweep', m2, nb, rng.getrandbits(48))
    # a copy taken after exactly k 32-bit words have been consumed, for every k across two Mersenne Twister buffer refills
    for g in ('mt', 'default'):
        for kk in (range(0, 1300) if q else range(0, 2600)):
            k += 1
            if k % nw == wid: yield ('copyat', g, kk, rng.choice(SEEDS), rng.getrandbits(48))
    shapes = [('urandomb', 64), ('urandomb', 1), ('urandomb', 32), ('urandomb', 100), ('urandomb', 8), ('ui_b', 64), ('ui_b', 17), ('urandomm', 7), ('urandomm', 1000), ('urandomm', (1 << 64) - 59), ('urandomm', 3 << 62), ('urandomm', (1 << 33) + 1), ('urandomm', (1 << 65) - 1), ('urandomm', 3 << 63), ('urandomm', (1 << 65) + (1 << 64) - 1), ('urandomm', (1 << 64) + 1), ('urandomm', (1 << 128) + (1 << 127) - 1), ('urandomm', (1 << 127) + (1 << 64)), ('urandomm', (1 << 128) + (1 << 63) + 0x123), ('urandomm', (2 << 64) + ((1 << 64) - 1) // 3), ('urandomm', (1 << 64) + 0x123),
              ('mpn_m', 7), ('mpn_m', (1 << 64) - 59), ('mpn_m', 3 << 62), ('mpn_m', (1 << 65) - 1), ('mpn_m', 3 << 63), ('mpn_m', (1 << 65) + (1 << 64) - 1), ('mpn_m', (1 << 64) + 1), ('mpn_m', (1 << 64) + 0x123),
              ('mpn_m', (1 << 128) + (1 << 127) - 1), ('mpn_m', (1 << 127) + (1 << 64)), ('mpn_m', (1 << 128) + (1 << 63) + 0x123), ('mpn_m', (2 << 64) + ((1 << 64) - 1) // 3), ('mpn_m', 1 << 64), ('mpn_m', 1 << 130),
              ('ui_m', 10), ('ui_m', (1 << 63) + 1), ('ui_m', 3 << 62), ('ui_m', (1 << 64) - 1), ('mpf', 64), ('lchalf', 0), ('mpn_b', 128)]
    for g in GENS:
        for sh in shapes:
            for rep in range(1 if q else 4):
                k += 1
                if k % nw == wid: yield ('battery', g, sh[0], sh[1], rng.choice(SEEDS + [rng.getrandbits(64)]), rng.getrandbits(48))
    # negative seeds: every generator kind x one cheap battery + reproducibility
    for g in GENS:
        for sd in NEGSEEDS:
            k += 1
            if k % nw == wid:
                yield ('battery', g, 'urandomb', 64, sd, rng.getrandbits(48))
                yield ('repro', g, sd, rng.getrandbits(48))
    N = 400 if q else 20000
    for i in range(N):
        yield ('range', rng.choice(GENS), rng.choice(SEEDS + [rng.getrandbits(rng.choice([10, 64, 300]))]), rng.getrandbits(48))

def zscore(count, n):
    return (count - n / 2) / math.sqrt(n / 4)

def build(spec, env):
    kind = spec[0]; r = random.Random(spec[-1])
    if kind == 'lcsize':
        s = spec[1]
        cmds = ['c gmp_randinit_lc_2exp_size R0 #%d' % s]
        ok = s <= 128
        if ok: cmds += ['c gmp_randseed_ui R0 #7', 'c mpz_urandomb Z1 R0 #300']
        else: cmds += ['c gmp_randinit_default R0']
        def check(rep, s=s, ok=ok):
            v, _ = split_reply(rep[0])
            if (int(v[0]) != 0) != ok: return [('gmp_randinit_lc_2exp_size:return', 'size=%d ret=%s' % (s, v[0]))]
            if ok:
                v, _ = split_reply(rep[2])
                if not I(v[0]) < (1 << 300): return [('mpz_urandomb:range', 'lc size %d' % s)]
        return Case(cmds, check, 2, ('lcsize', s))
    if kind in ('range', 'repro', 'copy', 'slowlc'):
        g, sd = spec[1], spec[2]
        cmds = []; checks = []
        def add(c, chk=None, lab=None):
            if isinstance(c, str): c = [c]
            cmds.extend(c); checks.append((len(cmds) - 1, chk, lab))
        cmds += gen_init(r, g, 0) + seed_cmds(r, 0, sd)
        if kind == 'slowlc':
            nb = spec[3]
            for i in range(160):
                prec = r.choice([64, nb, nb + 64, 2 * nb])
                def chkf(v):
                    p, e, s_, m = parse_f(v[0]); x = models.mpf_value(p, e, s_, m)
                    return None if 0 <= x < 1 else 'mpf_urandomb value %s outside [0,1)' % (float(x) if x < 1e300 else 'huge')
                add(['f F1 %d 0 0 0' % prec, 'c mpf_urandomb F1 R0 #%d' % nb], chkf, ('mpf_urandomb', nb, prec))
                def chkz(v, nb=nb): return None if 0 <= I(v[0]) < (1 << nb) else 'value %s not below 2^%d' % (v[0][:40], nb)
                add('c mpz_urandomb Z1 R0 #%d' % nb, chkz, ('mpz_urandomb', nb))
                nl = (nb + 63) // 64
                def chkn(v, nb=nb): return None if I(v[0].split('=')[1]) < (1 << nb) else 'limbs not below 2^%d' % nb
                add('c mpn_urandomb L0:%d R0 #%d' % (nl, nb), chkn, ('mpn_urandomb', nb))
                m_ = (1 << nb) - r.randint(1, 1000)
                def chkm(v, m_=m_): return None if 0 <= I(v[0]) < m_ else 'value not below the modulus'
                add(['z Z2 %s' % hx(m_), 'c mpz_urandomm Z1 R0 Z2'], chkm, ('mpz_urandomm', nb))
            def check(rep):
                out = []
                for idx, chk, lab in checks:
                    v, _ = split_reply(rep[idx]); e = chk(v)
                    if e: out.append(('%s:out-of-range:slow-start-lc' % lab[0], 'gen=%s seed=%s nbits=%d %s' % (g, hx(sd), nb, e)))
                return out
            return Case(cmds, check, len(checks), ('slowlc', g, sd, nb))
        if kind == 'range':
            for i in range(r.randint(5, 30)):
                c, chk, lab = request(r, 0); add(c, chk, lab)
            def check(rep):
                out = []
                for idx, chk, lab in checks:
                    v, _ = split_reply(rep[idx]); e = chk(v)
                    if e: out.append(('%s:out-of-range' % lab[0], 'gen=%s seed=%s %s' % (g, hx(sd), e)))
                return out
            return Case(cmds, check, len(checks), ('range', g) + tuple(sorted({c[2][0] for c in checks})))
        # second state: same algorithm and seed (repro) or a copy taken mid-history
        n1 = r.randint(0, 12); n2 = r.randint(5, 25)
        pre = [request(r, 0, ['urandomb', 'rrandomb', 'urandomm', 'ui_b', 'ui_m', 'mpn_b', 'mpf', 'randomb']) for _ in range(n1)]
        post = [request(r, 0, ['urandomb', 'rrandomb', 'urandomm', 'ui_b', 'ui_m', 'mpn_b', 'mpf', 'randomb', 'rrandom', 'mpn_m']) for _ in range(n2)]
        def on(slot, c):
            c = [c] if isinstance(c, str) else c
            return [x.replace(' R0', ' R%d' % slot) for x in c]
        pairs = []
        if kind == 'repro':
            cmds += [x.replace('R0', 'R1') for x in gen_init(r, g, 0)]
            # the same seed given through either seeding function
            cmds += seed_cmds(r, 1, sd)
            for c, chk, lab in pre + post:
                a = on(0, c); cmds.extend(a); ia = len(cmds) - 1; b = on(1, c); cmds.extend(b); pairs.append((ia, len(cmds) - 1, lab))
        else:
            for c, chk, lab in pre: cmds.extend(on(0, c))
            cmds.append('c gmp_randinit_set R1 R0')
            half = len(post) // 2
            for c, chk, lab in post[:half]:
                a = on(0, c); cmds.extend(a); ia = len(cmds) - 1; b = on(1, c); cmds.extend(b); pairs.append((ia, len(cmds) - 1, lab))
            # destroy the copy (re-initialise its slot), a third state replays the whole history: the original must be unaffected
            cmds += ['c gmp_randinit_mt R1'] + [x.replace('R0', 'R2') for x in gen_init(r, g, 0)] + seed_cmds(random.Random(spec[-1] ^ 5), 2, sd)
            for c, chk, lab in pre + post[:half]: cmds.extend(on(2, c))
            for c, chk, lab in post[half:]:
                a = on(0, c); cmds.extend(a); ia = len(cmds) - 1; b = on(2, c); cmds.extend(b); pairs.append((ia, len(cmds) - 1, lab))
        def check(rep, pairs=pairs):
            out = []
            for ia, ib, lab in pairs:
                a, _ = split_reply(rep[ia]); b, _ = split_reply(rep[ib])
                if a != b:
                    out.append(('%s:%s-sequences-differ' % (kind, g.split(':')[0]), 'gen=%s seed=%s at request %s: %s vs %s' % (g, hx(sd), lab, a[0][:40], b[0][:40]))); break
            return out
        return Case(cmds, check, 2 * len(pairs), (kind, g, sd.bit_length(), n1))
    if kind == 'lcsweep':
        _, m2, nb, _s = spec
        a = r.getrandbits(m2 - 3) * 8 + 5; c = r.getrandbits(r.choice([1, 30, 64])) | 1; sd = r.choice(SEEDS + [r.getrandbits(m2 + 10)])
        nl = (nb + 63) // 64; ones = (1 << (64 * (nl + 2))) - 1
        cmds = []
        for slot in (0, 1): cmds += ['z Z9 %s' % hx(a), 'c gmp_randinit_lc_2exp R%d Z9 #%d #%d' % (slot, c, m2), 'z Z8 %s' % hx(sd), 'c gmp_randseed R%d Z8' % slot]
        pairs = []
        for rnd in range(2):
            cmds += ['z Z1 %s' % hx(ones), 'c mpz_urandomb Z1 R0 #%d' % nb]; ia = len(cmds) - 1
            cmds += ['z Z2 0', 'c mpz_urandomb Z2 R1 #%d' % nb]; pairs.append((ia, len(cmds) - 1, 'mpz_urandomb'))
            cmds += ['l 0 %d %s' % (nl, hx((1 << (64 * nl)) - 1)), 'c mpn_urandomb L0:%d R0 #%d' % (nl, nb)]; ia = len(cmds) - 1
            cmds += ['l 1 %d 0' % nl, 'c mpn_urandomb L1:%d R1 #%d' % (nl, nb)]; pairs.append((ia, len(cmds) - 1, 'mpn_urandomb'))
        def check(rep, pairs=pairs, m2=m2, nb=nb):
            out = []
            for ia, ib, fn in pairs:
                x = split_reply(rep[ia])[0][0].split('=')[-1]; y = split_reply(rep[ib])[0][0].split('=')[-1]
                if I(x) >= (1 << nb): out.append(('%s:out-of-range' % fn, 'lc m2exp=%d nbits=%d value=%s' % (m2, nb, x[:40])))
                if I(x) != I(y): out.append(('repro:lc-result-depends-on-old-destination-contents:%s' % fn, 'lc m2exp=%d nbits=%d same seed: %s (destination was all ones) vs %s (was zero)' % (m2, nb, x[:50], y[:50])))
            return out[:3]
        return Case(cmds, check, 8, ('lcsweep', m2, nb))
    if kind == 'copyat':
        _, g, kk, sd, _s = spec
        cmds = gen_init(r, g, 0) + seed_cmds(r, 0, sd)
        if kk:
            if r.random() < 0.7: cmds.append('c mpz_urandomb Z1 R0 #%d' % (32 * kk))
            else:
                a_ = r.randint(0, kk); cmds += ['c mpz_urandomb Z1 R0 #%d' % (32 * a_)] if a_ else []
                cmds += ['c gmp_urandomb_ui R0 #32'] * min(kk - a_, 40)
                if kk - a_ > 40: cmds.append('c mpz_urandomb Z1 R0 #%d' % (32 * (kk - a_ - 40)))
        cmds.append('c gmp_randinit_set R1 R0')
        pairs = []
        for one in ('c gmp_urandomb_ui R%d #32', 'c mpz_urandomb Z2 R%d #64', 'c gmp_urandomb_ui R%d #17', 'c mpz_urandomb Z2 R%d #20000', 'c mpz_urandomb Z2 R%d #33'):
            cmds.append(one % 0); ia = len(cmds) - 1; cmds.append(one % 1); pairs.append((ia, len(cmds) - 1))
        def check(rep, pairs=pairs, kk=kk, g=g):
            for ia, ib in pairs:
                a, _ = split_reply(rep[ia]); b, _ = split_reply(rep[ib])
                if a != b: return [('copy:%s-sequences-differ' % g, 'gen=%s seed=%s copy taken after %d 32-bit words: %s vs %s' % (g, hx(sd), kk, a[0][:40], b[0][:40]))]
        return Case(cmds, check, len(pairs) * 2, ('copyat', g, kk))
    if kind == 'battery':
        _, g, shape, par, sd, _s = spec
        N = 1 << 15 if env.tier == 'quick' else 1 << 17
        cmds = gen_init(r, g, 0) + seed_cmds(r, 0, sd); base = len(cmds)
        lc = g.startswith('lc')
        if shape == 'lchalf':
            if not lc: return None
            m2 = int(g.split(':')[-1]) * (2 if g.startswith('lcs') else 1); nb = m2 // 2; one = 'c mpz_urandomb Z1 R0 #%d' % nb
        elif shape == 'urandomb': nb = par; one = 'c mpz_urandomb Z1 R0 #%d' % nb
        elif shape == 'ui_b': nb = par; one = 'c gmp_urandomb_ui R0 #%d' % nb
        elif shape == 'mpn_b': nb = par; one = 'c mpn_urandomb L0:%d R0 #%d' % ((nb + 63) // 64, nb)
        elif shape == 'urandomm': nb = None; cmds.append('z Z2 %s' % hx(par)); base += 1; one = 'c mpz_urandomm Z1 R0 Z2'
        elif shape == 'ui_m': nb = None; one = 'c gmp_urandomm_ui R0 #%d' % par
        elif shape == 'mpn_m':
            nb = None; nl = gen.nlimbs(par); cmds.append('l 1 %d %s' % (nl, hx(par))); base += 1; one = 'c mpn_urandomm L0:%d R0 L1 #%d' % (nl, nl)
        else: nb = par; cmds.append('f F1 128 0 0 0'); base += 1; one = 'c mpf_urandomb F1 R0 #%d' % nb
        cmds += [one] * N
        def check(rep, N=N, nb=nb, shape=shape, par=par, g=g):
            out = []; vals = []
            for i in range(N):
                t = rep[base + i].split()[1]
                if shape == 'mpn_b': x = int(t.split('=')[1], 16)
                elif shape == 'mpn_m': x = [int(w.split('=')[1], 16) for w in rep[base + i].split() if w.startswith('L0=')][0]
                elif shape in ('ui_b', 'ui_m'): x = int(t)
                elif shape == 'mpf':
                    p, e, s, m = parse_f(t); fx = models.mpf_value(p, e, s, m)
                    if not 0 <= fx < 1: return [('mpf_urandomb:out-of-range', 'gen=%s value=%s' % (g, float(fx)))]
                    x = int(fx * (1 << nb))
                else: x = int(t, 16)
                vals.append(x)
            d = 'gen=%s seed=%s shape=%s/%s N=%d' % (g, hx(sd), shape, par if not isinstance(par, int) or par < 10 ** 6 else hx(par), N)
            if nb is not None:
                if any(x >> nb for x in vals): return [('%s:out-of-range' % shape, d)]
                worst = 0
                for k in range(nb):
                    c = sum((x >> k) & 1 for x in vals); z = zscore(c, N)
                    if abs(z) > abs(worst): worst = z
                    if abs(z) > 8: out.append(('uniformity:bit-position-biased:%s' % g.split(':')[0], d + ' bit %d ones=%d z=%.1f' % (k, c, z))); break
                if nb >= 8:
                    bk = [0] * 256
                    for x in vals: bk[x >> (nb - 8)] += 1
                    e = N / 256; chi = sum((c - e) ** 2 / e for c in bk); z = (chi - 255) / math.sqrt(2 * 255)
                    if z > 8: out.append(('uniformity:top-byte-buckets:%s' % g.split(':')[0], d + ' chi2 z=%.1f' % z))
                if g.startswith('lc'):
                    for k in range(nb):
                        S = 0
                        for i, x in enumerate(vals): S |= ((x >> k) & 1) << i
                        for pw in range(0, 13):
                            p = 1 << pw
                            if (S ^ (S >> p)) & ((1 << (N - p)) - 1) == 0:
                                out.append(('uniformity:lc-low-order-bit-reaches-caller:%s' % g.split(':')[0], d + ' output bit %d is exactly periodic with period %d' % (k, p))); break
                        if out: break
            else:
                n = par
                if any(not 0 <= x < n for x in vals): return [('%s:out-of-range' % shape, d)]
                Bk = min(64, n)
                if Bk >= 2:
                    bounds = [j * n // Bk for j in range(Bk + 1)]
                    cnt = [0] * Bk
                    for x in vals:
                        j = min(x * Bk // n, Bk - 1)
                        while x < bounds[j]: j -= 1
                        while x >= bounds[j + 1]: j += 1
                        cnt[j] += 1
                    chi = 0.0
                    for j in range(Bk):
                        e = N * (bounds[j + 1] - bounds[j]) / n; chi += (cnt[j] - e) ** 2 / e
                    z = (chi - (Bk - 1)) / math.sqrt(2 * (Bk - 1))
                    if z > 8: out.append(('uniformity:urandomm-buckets:%s' % g.split(':')[0], d + ' chi2 z=%.1f' % z))
            return out
        c = Case(cmds, check, N, ('battery', g, shape, par if isinstance(par, int) and par < 1000 else str(par)[:12]))
        c.timeout = 900
        return c
    raise ValueError(kind)
