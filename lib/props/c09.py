"""C09 integer roots, remainders and perfect-power tests."""
import random, math
from runner import Case
from rpc import hx, I, split_reply
import gen, models
from gen import B, M

PID = 'C09'
LEVEL = 'exploration'
VARIANTS = {'quick': ['asan', 'plain'], 'thorough': ['asan', 'plain', 'asan-tdbg']}
RULE = ('u in {k^n, k^n-1, k^n+1} for all k<2^12 (thorough) / sampled k (quick) and large k (random, all-ones, 2^j+-1), n from 1 to '
        'beyond the bit length of u (incl. 2^32-1, 2^40, 2^63 on small and multi-limb u, run under a 2 GB allocation cap); roots with '
        'long one-runs ((2^j-1)^2+-1); limb counts 1..64 odd/even and around ROOTREM_THRESHOLD; 1- and 2-limb sqrtrem boundary operands; '
        'mpz_sqrt/sqrtrem/root/nthroot/rootrem/perfect_square_p/perfect_power_p and mpn_sqrtrem/perfect_square_p, negatives with odd n; '
        'judged by math.isqrt, a verified Newton k-th-root model and an exhaustive perfect-power model. distinct = (group, '
        'construction, size bucket, index bucket, delta); trivial = |u|<2')
ASSUMPTIONS = ['math.isqrt exact; iroot model verifies r^k <= u < (r+1)^k', 'even roots / sqrt of negatives are not generated (undefined)']

def szb(n):
    return n if n < 24 else 24 + n.bit_length() * 2

def specs(rng, tier, wid, nw, env):
    q = tier == 'quick'
    k = 0
    # exact powers and neighbours: small bases
    ks = range(2, 4096) if not q else list(range(2, 40)) + [rng.randrange(40, 4096) for _ in range(60)]
    for base in ks:
        for n in ([2, 3, 5, 7, 8] if q else [2, 3, 4, 5, 6, 7, 8, 11, 13, 16, 31, 64]):
            k += 1
            if k % nw == wid: yield ('pow', base, n, rng.getrandbits(48))
    # sizes for sqrt / root on structured big values
    sizes = list(range(1, 65)) + ([] if q else [100, 127, 128, 200, 513, 1000, 2500])
    for un in sizes:
        for cons in ('sq', 'sqm1', 'sqp1', 'rand', 'ones', 'runsq', 'bnd'):
            k += 1
            if k % nw == wid: yield ('sqrt', un, cons, rng.getrandbits(48))
        for cons in ('pw', 'pwm1', 'pwp1', 'rand', 'ones'):
            for idx in ('2', '3', 'small', 'mid', 'len', 'beyond'):
                k += 1
                if k % nw == wid: yield ('root', un, cons, idx, rng.randint(0, 1), rng.getrandbits(48))
    for i in range(60 if q else 600):
        k += 1
        if k % nw == wid: yield ('hugeidx', rng.choice([0, 1, 1, 2, 3, 9]), rng.getrandbits(48))
    # perfect powers by their factorisation: products of small primes (the trial-division path) with every gcd structure of the exponents,
    # both signs (negative: only odd exponents count, so gcd 2, 4, 8 is NOT a perfect power, 6 and 12 are), with and without a large cofactor
    for g in (1, 2, 3, 4, 5, 6, 8, 9, 10, 12, 16):
        for j in range(150 if q else 1500):
            k += 1
            if k % nw == wid: yield ('pp', 'smooth:%d' % g, rng.getrandbits(48))
    N = 5000 if q else 500000
    for i in range(N):
        c = rng.random()
        if c < 0.3: yield ('sqrt', rng.randint(1, 10), rng.choice(['sq', 'sqm1', 'sqp1', 'rand', 'ones', 'runsq', 'bnd']), rng.getrandbits(48))
        elif c < 0.7: yield ('root', rng.randint(1, 10), rng.choice(['pw', 'pwm1', 'pwp1', 'rand', 'ones']), rng.choice(['2', '3', 'small', 'mid', 'len', 'beyond']), rng.randint(0, 1), rng.getrandbits(48))
        else: yield ('pp', rng.choice(['pow', 'powneg', 'near', 'small', 'rand', 'sqr']), rng.getrandbits(48))

def root_cmds_check(u, n, tag):
    """mpz_root (flag), mpz_nthroot, mpz_rootrem on u, index n"""
    cmds = ['limit 2000000000', 'z Z1 %s' % hx(u), 'c mpz_root Z2 Z1 #%d' % n, 'c mpz_nthroot Z3 Z1 #%d' % n, 'c mpz_rootrem Z4 Z5 Z1 #%d' % n, 'c mpz_root Z1 Z1 #%d' % n]
    def check(rep, u=u, n=n):
        out = []
        rt = models.iroot(abs(u), n) * (1 if u >= 0 else -1); rem = u - rt ** n if n < 100000 or abs(rt) <= 1 else None
        if rem is None: rem = u - (rt if abs(rt) == 1 and (n % 2 or rt == 1) else rt ** n)
        d = 'u=%s n=%d' % (hx(u)[:80], n)
        v, _ = split_reply(rep[2])
        if I(v[1]) != rt: out.append(('mpz_root:wrong-root', d + ' got=%s want=%s' % (v[1][:60], hx(rt)[:60])))
        elif (int(v[0]) != 0) != (rem == 0): out.append(('mpz_root:wrong-exact-flag', d + ' flag=%s' % v[0]))
        v, _ = split_reply(rep[3])
        if I(v[0]) != rt: out.append(('mpz_nthroot:wrong', d))
        v, _ = split_reply(rep[4])
        if I(v[0]) != rt or I(v[1]) != rem: out.append(('mpz_rootrem:wrong', d + ' root_ok=%s rem_ok=%s' % (I(v[0]) == rt, I(v[1]) == rem)))
        v, _ = split_reply(rep[5])
        if I(v[1]) != rt: out.append(('mpz_root:aliased-wrong', d))
        return out
    return cmds, check

def build(spec, env):
    kind = spec[0]; r = random.Random(spec[-1])
    if kind == 'pow':
        _, base, n, _s = spec
        d = r.choice([-1, 0, 1]); u = base ** n + d
        neg = n % 2 == 1 and r.random() < 0.3
        if neg: u = -u
        cmds, chk = root_cmds_check(u, n, 'pow')
        cmds += ['z Z6 %s' % hx(u), 'c mpz_perfect_power_p Z6', 'c mpz_perfect_square_p Z6']
        def check(rep, u=u, chk=chk):
            out = chk(rep)
            v, _ = split_reply(rep[7])
            if (int(v[0]) != 0) != models.perfpow(u): out.append(('mpz_perfect_power_p:wrong', 'u=%s got=%s' % (hx(u), v[0])))
            v, _ = split_reply(rep[8]); es = u >= 0 and math.isqrt(u) ** 2 == u
            if (int(v[0]) != 0) != es: out.append(('mpz_perfect_square_p:wrong', 'u=%s got=%s' % (hx(u), v[0])))
            return out
        return Case(cmds, check, 6, ('pow', min(base, 64), n, d, neg))
    if kind == 'sqrt':
        _, un, cons, _s = spec
        if cons in ('sq', 'sqm1', 'sqp1'):
            s = gen.nat(r, (un + 1) // 2, r.choice(['rand', 'ones', 'runs', 'bitpm', 'topmax', 'top1'])); u = s * s + {'sq': 0, 'sqm1': -1, 'sqp1': 1}[cons]
        elif cons == 'runsq':
            j = r.randint(1, 32 * un + 1); u = ((1 << j) - 1) ** 2 + r.choice([-1, 0, 1])
        elif cons == 'bnd':
            u = r.choice([1 << 62, 1 << 63, M, 1 << 126, 1 << 127, (1 << 128) - 1, 1 << 64, (1 << 64) + 1, (1 << 128) - (1 << 65), (1 << 126) - 1]) + r.randint(-3, 3)
            u = u << (64 * r.choice([0, 0, un - 1 if un > 2 else 0]) & ~1)
        elif cons == 'ones': u = (1 << (64 * un - r.randint(0, 63))) - 1
        else: u = gen.nat(r, un)
        if u < 0: u = 0
        n = gen.nlimbs(u)
        cmds = ['z Z1 %s' % hx(u), 'c mpz_sqrt Z2 Z1', 'c mpz_sqrtrem Z3 Z4 Z1', 'c mpz_perfect_square_p Z1', 'c mpz_sqrt Z1 Z1']
        if n >= 1:
            cmds += ['l 0 %d %s' % (n, hx(u)), 'c mpn_sqrtrem L1:%d L2:%d L0 #%d' % ((n + 1) // 2, n, n), 'c mpn_sqrtrem L3:%d 0 L0 #%d' % ((n + 1) // 2, n), 'c mpn_perfect_square_p L0 #%d' % n]
        def check(rep, u=u, n=n):
            out = []; s = math.isqrt(u); rem = u - s * s; d = 'u=%s' % hx(u)[:90]
            v, _ = split_reply(rep[1])
            if I(v[0]) != s: out.append(('mpz_sqrt:wrong', d))
            v, _ = split_reply(rep[2])
            if I(v[0]) != s or I(v[1]) != rem: out.append(('mpz_sqrtrem:wrong', d))
            v, _ = split_reply(rep[3])
            if (int(v[0]) != 0) != (rem == 0): out.append(('mpz_perfect_square_p:wrong', d))
            v, _ = split_reply(rep[4])
            if I(v[0]) != s: out.append(('mpz_sqrt:aliased-wrong', d))
            if n >= 1:
                v, _ = split_reply(rep[6]); rn = int(v[0]); bufs = {x.split('=')[0]: I(x.split('=')[1]) for x in v[1:]}
                if bufs['L1'] != s or rn != gen.nlimbs(rem) or (bufs['L2'] & ((1 << (64 * rn)) - 1)) != rem: out.append(('mpn_sqrtrem:wrong', d + ' rn=%d' % rn))
                v, _ = split_reply(rep[7]); bufs = {x.split('=')[0]: I(x.split('=')[1]) for x in v[1:]}
                if bufs['L3'] != s or (int(v[0]) != 0) != (rem != 0): out.append(('mpn_sqrtrem:null-rem-wrong', d))
                v, _ = split_reply(rep[8])
                if (int(v[0]) != 0) != (rem == 0): out.append(('mpn_perfect_square_p:wrong', d))
            return out
        return Case(cmds, check, 8 if n else 4, ('sqrt', cons, szb(un), u % 2), trivial=(u < 2))
    if kind == 'root':
        _, un, cons, idx, neg, _s = spec
        bits = 64 * un
        n = {'2': 2, '3': 3, 'small': r.choice([4, 5, 6, 7, 8, 9, 10, 11]), 'mid': r.randint(12, max(13, bits // 3)),
             'len': bits + r.choice([-2, -1, 0, 1, 2]), 'beyond': r.choice([bits + 5, 2 * bits, bits * 50 + 1, bits + 64, (1 << 20) + 1, (1 << 24) - 1])}[idx]
        n = max(1, n)
        if cons in ('pw', 'pwm1', 'pwp1'):
            kb = max(1, bits // n); base = r.choice([(1 << kb) - 1, (1 << kb) + 1, r.getrandbits(kb) | 1 << max(kb - 1, 0), 2, 3])
            if base.bit_length() * n > bits + 200: base = 2
            u = base ** n + {'pw': 0, 'pwm1': -1, 'pwp1': 1}[cons] if base.bit_length() * n < 400000 else gen.nat(r, un)
        elif cons == 'ones': u = (1 << (bits - r.choice([0, 0, 0, 1, 2, r.randint(0, 63)]))) - r.choice([1, 1, 2, 3, 1 << 64 if un > 2 else 5, r.getrandbits(66)])
        else: u = gen.nat(r, un)
        if u < 0: u = 0
        if neg and n % 2 == 1: u = -u
        cmds, check = root_cmds_check(u, n, cons)
        return Case(cmds, check, 4, ('root', cons, szb(un), idx, n if n < 12 else 12, neg), trivial=(abs(u) < 2))
    if kind == 'hugeidx':
        _, un, _s = spec
        u = gen.nat(r, un) if un else r.choice([0, 1])
        if r.random() < 0.3: u = (1 << 523) + 12345
        n = r.choice([(1 << 31) - 1, (1 << 32) - 1, (1 << 32) + 1, 1 << 33, 1 << 40, (1 << 62) + 1, (1 << 63) - 1, (1 << 63) + 1, M, M - 1])
        if r.random() < 0.25 and n % 2 == 1: u = -u
        cmds, check = root_cmds_check(u, n, 'huge')
        return Case(cmds, check, 4, ('hugeidx', szb(un), n.bit_length(), u < 0), trivial=(abs(u) < 2))
    if kind == 'pp':
        _, cons, _s = spec
        if cons == 'pow': w = r.randint(2, 200) ** r.randint(2, 12)
        elif cons == 'powneg': w = -(r.randint(2, 60) ** r.randint(2, 11))
        elif cons == 'near': w = r.randint(2, 200) ** r.randint(2, 12) + r.choice([-1, 1])
        elif cons.startswith('smooth:'):
            g = int(cons[7:]); w = 1
            ps = r.sample([2, 2, 3, 3, 5, 7, 11, 13, 31, 101, 997] + ([1009, 1013, 65537] if r.random() < 0.3 else []), r.randint(1, 4))
            for p_ in set(ps): w *= p_ ** (g * r.choice([1, 2, 3, 3, 5, 5, 6, 7] if g < 8 else [1, 2, 3, 5]))
            if r.random() < 0.25: w *= r.choice([2, 3, 7, (1 << 61) - 1, 4294967311]) ** r.choice([1, g, 2 * g])      # spoil or keep the structure
            if r.random() < 0.5: w = -w
        elif cons == 'small': w = r.randint(-300, 300)
        elif cons == 'sqr': w = gen.nat(r, r.randint(1, 4)) ** 2 * r.choice([1, 1, -1])
        else: w = gen.val(r, 3)
        if r.random() < 0.2 and not cons.startswith('smooth'): w = (gen.nat(r, r.randint(1, 3)) ** r.choice([2, 3, 5, 6, 7])) * r.choice([1, -1])
        cmds = ['z Z1 %s' % hx(w), 'c mpz_perfect_power_p Z1', 'c mpz_perfect_square_p Z1']
        def check(rep, w=w):
            out = []
            v, _ = split_reply(rep[1])
            if (int(v[0]) != 0) != models.perfpow(w): out.append(('mpz_perfect_power_p:wrong', 'u=%s got=%s' % (hx(w), v[0])))
            v, _ = split_reply(rep[2]); es = w >= 0 and math.isqrt(w) ** 2 == w
            if (int(v[0]) != 0) != es: out.append(('mpz_perfect_square_p:wrong', 'u=%s got=%s' % (hx(w), v[0])))
            return out
        return Case(cmds, check, 2, ('pp', cons, w < 0, min(abs(w).bit_length(), 200) // 8))
    raise ValueError(kind)
