"""C10 bitwise functions follow infinite two's-complement semantics."""
import random
from runner import Case
from rpc import hx, I, split_reply
import gen
from sweeputil import sweep_case
from gen import B, M

PID = 'C10'
LEVEL = 'exploration'
VARIANTS = {'quick': ['asan', 'plain'], 'thorough': ['asan', 'plain', 'none']}
RULE = ('mpz_and/ior/xor/com/popcount/hamdist over all four sign combinations x size pairs 0..12 x 0..12 limbs x classes {random, -1, '
        '-2^k, -(2^k)*odd with 1..5 low zero limbs, B^k, B^k-1, all-ones}, aliased destinations, pre-shrunk; setbit/clrbit/combit/tstbit/'
        'scan0/scan1 with indices below, at (64*size-1, 64*size) and far above the length (to 2^20), on negatives at and below the lowest '
        'non-zero limb; judged by Python unbounded ints (ULONG_MAX where the manual says infinite/absent). mpn logic ops, popcount, hamdist, '
        'scan0/scan1 by the in-driver sweep against the limb reference. distinct = (group, classes, sizes, signs, alias / index class); '
        'trivial = both operands zero')
ASSUMPTIONS = ['Python & | ^ ~ on ints are exact two\'s-complement semantics']

VC = ['rand', 'm1', 'negpow2', 'lowzero', 'Bk', 'Bkm1', 'ones', 'special', 'zero']
def mk(r, n, cls, neg):
    if cls == 'zero' or n == 0: return 0
    if cls == 'm1': return -1
    if cls == 'negpow2': return -(1 << r.randint(0, 64 * n - 1))
    if cls == 'lowzero':
        z = r.randint(1, min(5, n)) if n > 1 else 0
        x = (r.getrandbits(64 * (n - z)) | 1) << (64 * z) if n > z else 1 << (64 * (n - 1))
        return -x if neg or r.random() < 0.5 else x
    if cls == 'Bk': x = 1 << (64 * (n - 1))
    elif cls == 'Bkm1': x = (1 << (64 * n)) - 1
    elif cls == 'ones': x = (1 << (64 * n - r.randint(0, 63))) - 1
    else: x = gen.nat(r, n, cls)
    return -x if neg else x

def specs(rng, tier, wid, nw, env):
    q = tier == 'quick'
    nmax = 130 if q else 1100
    rs = [(n, n) for n in range(1, nmax + 1)] + [(255, 258), (511, 514)]
    rs.sort(key=lambda x: -x[1])
    for i, (lo, hi) in enumerate(rs):
        if i % nw == wid: yield ('sweep', 'logic', lo, hi, rng.getrandbits(40))
    k = 0
    for an in range(0, 13):
        for bn in range(0, 13):
            for sg in range(4):
                for rep in range(1 if q else 4):
                    k += 1
                    if k % nw == wid: yield ('logic', an, bn, rng.choice(VC), rng.choice(VC), sg, rng.choice(['w', 'w=u', 'w=v', 'u=v']), rng.getrandbits(48))
    N = 25000 if q else 400000
    for i in range(N):
        c = rng.random()
        if c < 0.4: yield ('logic', rng.randint(0, 12), rng.randint(0, 12), rng.choice(VC), rng.choice(VC), rng.randint(0, 3), rng.choice(['w', 'w=u', 'w=v', 'u=v']), rng.getrandbits(48))
        else: yield ('bit', rng.randint(0, 8), rng.choice(VC), rng.randint(0, 1), rng.choice(['low', 'topm1', 'top', 'above', 'far', 'lowzero', 'rand']), rng.getrandbits(48))

def scan(x, st, want):
    if want == 1:
        if x >= 0 and (x >> st) == 0: return M
    else:
        if x < 0 and (x >> st) == -1: return M
    y = x >> st
    if want == 0: y = ~y
    return st + ((y & -y).bit_length() - 1)

def build(spec, env):
    kind = spec[0]; r = random.Random(spec[-1])
    if kind == 'sweep': return sweep_case(spec[1], spec[2], spec[3], spec[4], 'C10')
    if kind == 'logic':
        _, an, bn, ca, cb, sg, alias, _s = spec
        a = mk(r, an, ca, sg & 1); b = mk(r, bn, cb, sg & 2)
        if alias == 'u=v': b = a
        W, U, V = {'w': ('Z0', 'Z1', 'Z2'), 'w=u': ('Z1', 'Z1', 'Z2'), 'w=v': ('Z2', 'Z1', 'Z2'), 'u=v': ('Z0', 'Z1', 'Z1')}[alias]
        cmds = []
        for fn in ('mpz_and', 'mpz_ior', 'mpz_xor'):
            cmds += ['z Z0 %s' % hx(r.getrandbits(r.choice([0, 64, 900]))), 'z Z1 %s' % hx(a), 'z Z2 %s' % hx(b), 'shrink %s' % W, 'c %s %s %s %s' % (fn, W, U, V)]
        cmds += ['z Z1 %s' % hx(a), 'z Z2 %s' % hx(b), 'c mpz_com Z0 Z1', 'c mpz_com Z1 Z1', 'z Z1 %s' % hx(a), 'c mpz_popcount Z1', 'c mpz_hamdist Z1 Z2']
        def check(rep, a=a, b=b, alias=alias):
            out = []; d = 'a=%s b=%s' % (hx(a)[:70], hx(b)[:70])
            for i, (fn, e) in enumerate((('mpz_and', a & b), ('mpz_ior', a | b), ('mpz_xor', a ^ b))):
                v, _ = split_reply(rep[5 * i + 4])
                if I(v[0]) != e: out.append(('%s:wrong:%s' % (fn, alias), d + ' got=%s' % v[0][:70]))
            for idx in (17, 18):
                v, _ = split_reply(rep[idx])
                if I(v[0]) != ~a: out.append(('mpz_com:wrong', d))
            v, _ = split_reply(rep[20]); pc = bin(a).count('1') if a >= 0 else M
            if int(v[0]) != pc: out.append(('mpz_popcount:wrong', d + ' got=%s' % v[0]))
            v, _ = split_reply(rep[21]); hd = bin(a ^ b).count('1') if (a >= 0) == (b >= 0) else M
            if int(v[0]) != hd: out.append(('mpz_hamdist:wrong', d + ' got=%s' % v[0]))
            return out
        return Case(cmds, check, 7, ('logic', an, bn, ca, cb, sg, alias), trivial=(a == 0 and b == 0))
    if kind == 'bit':
        _, an, ca, neg, ic, _s = spec
        a = mk(r, an, ca, neg); L = 64 * gen.nlimbs(a)
        lz = ((a & -a).bit_length() - 1) if a else 0
        bi = {'low': r.randint(0, 70), 'topm1': max(L - 1, 0), 'top': L, 'above': L + r.randint(1, 130), 'far': r.choice([1 << 20, 100000, 65536 + 63, 12345]),
              'lowzero': max(0, lz + r.choice([-65, -64, -1, 0, 1, 63, 64])), 'rand': r.randint(0, L + 64)}[ic]
        cmds = ['z Z1 %s' % hx(a), 'c mpz_scan0 Z1 #%d' % bi, 'c mpz_scan1 Z1 #%d' % bi, 'c mpz_tstbit Z1 #%d' % bi]
        for fn in ('mpz_setbit', 'mpz_clrbit', 'mpz_combit'):
            cmds += ['z Z2 %s' % hx(a), 'shrink Z2', 'c %s Z2 #%d' % (fn, bi)]
        def check(rep, a=a, bi=bi):
            out = []; d = 'a=%s bit=%d' % (hx(a)[:70], bi)
            for idx, fn, e in ((1, 'mpz_scan0', scan(a, bi, 0)), (2, 'mpz_scan1', scan(a, bi, 1)), (3, 'mpz_tstbit', (a >> bi) & 1)):
                v, _ = split_reply(rep[idx])
                if int(v[0]) != e: out.append(('%s:wrong' % fn, d + ' got=%s want=%d' % (v[0], e)))
            for i, (fn, e) in enumerate((('mpz_setbit', a | (1 << bi)), ('mpz_clrbit', a & ~(1 << bi)), ('mpz_combit', a ^ (1 << bi)))):
                v, _ = split_reply(rep[6 + 3 * i])
                if I(v[0]) != e: out.append(('%s:wrong' % fn, d + ' got=%s' % v[0][:70]))
            return out
        return Case(cmds, check, 6, ('bit', an, ca, neg, ic, bi % 64 in (0, 63)))
    raise ValueError(kind)
