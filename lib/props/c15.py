"""C15 concurrent use from several threads is race-free and gives sequential results.

The driver's `par` command runs T scripts on T threads (private variable pools, private random states,
private recorders, shared read-only source operands).  Oracles: ThreadSanitizer reports on the tsan /
tsan-fat variants; per-thread replies compared with a serial run of the same script (itself judged by the
Python oracles of the value properties); a data-segment monitor over libmpir.a's writable static storage."""
import os, sys, random, time, json, re, hashlib, multiprocessing, signal, traceback, argparse, subprocess, tempfile, glob
import runner, rpc, gen
import build as bld
from rpc import hx

PID = 'C15'
LEVEL = 'exploration'
VARIANTS = {'quick': ['tsan', 'plain', 'tsan-fat'], 'thorough': ['tsan', 'plain', 'tsan-fat', 'fat']}
MODS = ['c01', 'c02', 'c06', 'c07', 'c08', 'c09', 'c10', 'c12', 'c13', 'c16', 'c18', 'c19', 'c11']
RULE = ('T = 8, 16, 32 threads (more than the 16 cores) started at a barrier, each executing a script of the value properties\' cases (all of mpz/mpq/mpf/'
        'mpn, printf/scanf to private buffers, stream I/O on private cookie streams, random functions on private states) over a private pool while '
        'reading a shared pool of source operands (incl. 60k-limb operands: heap temporaries); half of the runs give every thread the same script; hook '
        'points yield with probability 1/64. Verdicts: any ThreadSanitizer report with a library frame (tsan, tsan-fat builds; the fat vector is '
        'initialised before the threads start except in the named cold-start scenario); any difference between a thread\'s replies and the serial run of '
        'its script (serial run judged by the Python oracles); any changed byte in libmpir.a\'s .data/.bss outside the documented globals. '
        'distinct = (variant, thread count, same/different scripts, script content); the run is inconclusive without overlapping calls Static sweep (single thread, function-complete): every generic function of the driver table is called on edge and random in-domain operands and after each function the writable static storage of libmpir.a (from the linker map) must be unchanged apart from the documented globals.')
ASSUMPTIONS = ['accesses inside assembly kernels are invisible to TSan', 'only the schedules that occurred are judged (TSan\'s happens-before analysis generalises over them)',
               'excluded as documented: mpf_set_default_prec/mpf_init, mp_set_memory_functions after start, the obsolete global-state random functions']
DOCUMENTED_GLOBALS = ('memory.o', 'errno.o', 'rands.o', 'set_dfl_prec.o', 'mp_set_fns.o')

def shared_setup(r):
    cmds = []
    big = gen.nat(r, 30000, 'rand'); big2 = gen.nat(r, 30100, 'runs')
    vals = {1: gen.nat(r, 12), 2: gen.nat(r, 9) | 1, 3: gen.nat(r, 10) | 1, 4: gen.nat(r, 40), 5: gen.nat(r, 200), 6: big, 7: (1 << 127) - 1, 8: big2, 9: gen.nat(r, 700)}
    for k, v in vals.items(): cmds.append('z Z%d %s' % (k, hx(v)))
    cmds += ['q Q1 %s %s' % (hx(gen.nat(r, 3) | 1), hx(gen.nat(r, 2) | 2 | 1)), 'c mpq_canonicalize Q1', 'q Q2 7 9', 'f F1 700 3 3 %x' % gen.nat(r, 3), 'f F2 128 0 2 %x' % gen.nat(r, 2)]
    return cmds

SHARED_BLOCK = ['c mpz_mul Z40 SZ1 SZ2', 'c mpz_powm Z41 SZ1 SZ2 SZ3', 'c mpz_gcd Z42 SZ4 SZ5', 'c mpz_get_str 0 #10 SZ5', 'c mpz_tdiv_q Z43 SZ5 SZ1', 'c mpq_add Q20 SQ1 SQ2',
                'c mpf_mul F20 SF1 SF2', 'c mpf_sqrt F21 SF1', 'c mpz_probab_prime_p SZ7 #5', 'c mpz_mul Z44 SZ6 SZ8', 'c mpz_tdiv_qr Z45 Z46 Z44 SZ9', 'c mpz_sizeinbase SZ6 #10',
                'c mpz_fac_ui Z47 #300', 'c mpz_fib_ui Z47 #2000', 'c mpz_bin_uiui Z47 #400 #37', 'c mpz_nextprime Z47 SZ2', 'c mpz_jacobi SZ1 SZ3', 'c mpz_root Z47 SZ5 #3',
                'pf snprintf 300 %s SZ1 SZ2' % rpc.shex('%Zd %Zx'), 'c mpz_set_str Z47 %s #10' % rpc.shex('123456789012345678901234567890123456789'), 'c mpz_urandomb Z47 R0 #300',
                'c mpz_urandomm Z47 R1 SZ4', 'c mpz_divexact Z48 Z44 SZ6', 'c mpz_sqrt Z49 SZ8', 'c mpz_mul Z40 SZ8 SZ8']

# functions that are natural homes for a static cache, a lazily built table or a shared scratch buffer, with arguments in each of
# their algorithm regions: every thread executes this block first (so the same function runs simultaneously in all threads), and
# the data-segment monitor sees any static storage they touch
CANDIDATES = [
    'c mpz_bin_uiui Z50 #200 #100', 'c mpz_bin_uiui Z50 #30000 #12000', 'c mpz_bin_uiui Z50 #1000000 #30', 'c mpz_bin_uiui Z50 #5000 #400', 'c mpz_bin_uiui Z50 #20000 #1500',
    'c mpz_bin_ui Z50 SZ1 #20',
    'c mpz_fac_ui Z50 #20', 'c mpz_fac_ui Z50 #1000', 'c mpz_fac_ui Z50 #4000', 'c mpz_2fac_ui Z50 #5001', 'c mpz_mfac_uiui Z50 #5000 #3', 'c mpz_primorial_ui Z50 #8000', 'c mpz_primorial_ui Z50 #300',
    'c mpz_fib_ui Z50 #90', 'c mpz_fib_ui Z50 #20000', 'c mpz_fib2_ui Z50 Z51 #9001', 'c mpz_lucnum_ui Z50 #9000', 'c mpz_lucnum2_ui Z50 Z51 #777',
    'c mpz_nextprime Z50 SZ2', 'c mpz_next_prime_candidate Z50 SZ3 R2', 'c mpz_probab_prime_p SZ7 #10', 'c mpz_probab_prime_p SZ3 #10', 'c mpz_likely_prime_p SZ7 R2 #0',
    'c mpz_probable_prime_p SZ7 R2 #10 #0', 'c mpz_miller_rabin SZ7 #5 R2',
    'c mpz_get_str 0 #10 SZ5', 'c mpz_get_str 0 #7 SZ5', 'c mpz_get_str 0 #62 SZ4', 'c mpz_sizeinbase SZ9 #10',
    'c mpz_set_str Z50 %s #10' % rpc.shex('9' * 4000), 'c mpz_set_str Z50 %s #7' % rpc.shex('6' * 3000), 'c mpz_set_str Z50 %s #16' % rpc.shex('f' * 5000), 'c mpz_set_str Z50 %s #62' % rpc.shex('z' * 700),
    'c mpf_get_str 0 & #10 #0 SF1', 'c mpf_get_str 0 & #16 #20 SF2', 'c mpf_set_str F30 %s #10' % rpc.shex('3.14159265358979323846264338327950288e-10'),
    'c mpz_jacobi SZ4 SZ3', 'c mpz_jacobi SZ5 SZ2', 'c mpz_gcdext Z50 Z51 Z52 SZ5 SZ4', 'c mpz_gcd Z50 SZ5 SZ4', 'c mpz_invert Z50 SZ1 SZ3', 'c mpz_powm Z50 SZ4 SZ1 SZ3', 'c mpz_powm_ui Z50 SZ4 #65537 SZ2',
    'c mpz_root Z50 SZ5 #7', 'c mpz_sqrt Z50 SZ9', 'c mpz_sqrtrem Z50 Z51 SZ5', 'c mpz_perfect_power_p SZ5', 'c mpz_perfect_square_p SZ9', 'c mpz_remove Z50 SZ5 SZ2', 'c mpz_lcm Z50 SZ4 SZ1',
    'c mpz_mul Z50 SZ5 SZ5', 'c mpz_tdiv_qr Z51 Z52 Z50 SZ5', 'c mpz_pow_ui Z50 SZ1 #50', 'c mpz_ui_pow_ui Z50 #3 #3000',
    'c mpz_urandomb Z50 R0 #2000', 'c mpz_urandomm Z50 R0 SZ9', 'c mpz_rrandomb Z50 R1 #5000', 'c mpf_urandomb F30 R0 #500',
    'pf snprintf 600 %s SZ1 SZ2 SZ4' % rpc.shex('%Zd %#Zx %40Zo'), 'pf asprintf - %s SZ5' % rpc.shex('%Zd'), 'sf sscanf %s %s Z50 Z51' % (rpc.shex('123456789123456789 0xabcdef'), rpc.shex('%Zd %Zi')),
    'c mpq_add Q20 SQ1 SQ2', 'c mpq_mul Q20 SQ1 SQ2', 'c mpq_get_str 0 #10 SQ1', 'c mpf_sqrt F30 SF1', 'c mpf_div F30 SF1 SF2', 'c mpf_mul F30 SF1 SF1',
]

def make_script(r, env, ncmds):
    """list of (cmds, case or None)"""
    mods = [__import__(m) for m in MODS]
    out = [(list(CANDIDATES), None)]; n = len(CANDIDATES)
    gens = [m.specs(random.Random(r.getrandbits(40)), 'quick', r.randrange(16), 16, env) for m in mods]
    live = list(range(len(mods)))
    while n < ncmds and live:
        i = r.choice(live)
        try: spec = next(gens[i])
        except StopIteration: live.remove(i); continue
        if spec[0] in ('sweep', 'battery', 'hugeidx', 'wfail', 'trunc', 'hdr'): continue
        try: case = mods[i].build(spec, env)
        except Exception: continue
        if case is None or sum(len(c) for c in case.cmds) > 300000: continue
        if any(c.startswith('limit') for c in case.cmds): continue
        case.spec = spec
        out.append((case.cmds, case)); n += len(case.cmds)
        if r.random() < 0.15:
            k = r.randint(2, 6); blk = r.sample(SHARED_BLOCK, k); out.append((blk, None)); n += k
    return out

def run_par(exe, setup, scripts, mask, env=None, timeout=1800):
    """returns (header line, per-thread reply lists)"""
    d = rpc.Drv(exe, env=env, timeout=timeout)
    try:
        d.batch(setup)
        cmds = ['par %d %d' % (len(scripts), mask)]
        for s in scripts: cmds += s + ['--']
        want = 1 + len(scripts) + sum(len(s) for s in scripts)
        rep = d.batch(cmds, want=want, timeout=timeout)
    finally:
        d.close()
    hdr = rep[0]; out = []; i = 1
    for s in scripts:
        th = rep[i]; i += 1
        out.append((th, rep[i:i + len(s)])); i += len(s)
    return hdr, out

_TS_BLOCK = re.compile(r'WARNING: ThreadSanitizer: ([^\n(]+)')
_TS_FRAME = re.compile(r'#\d+ (\S+) (\S+)')
def tsan_reports(logprefix):
    """parse TSan log files -> list of (kind, key, text)"""
    out = []
    for fn in glob.glob(logprefix + '*'):
        txt = open(fn, errors='replace').read()
        for blk in txt.split('==================')[1:]:
            m = _TS_BLOCK.search(blk)
            if not m: continue
            kind = m.group(1).strip().replace(' ', '-')
            stacks = re.split(r'\n\s*\n', blk)
            tops = []
            for st in stacks:
                if not re.search(r'(Write|Read|Previous|Atomic)', st.split('\n')[0] + (st.split('\n')[1] if '\n' in st else '')): continue
                fr = [(a, b) for a, b in _TS_FRAME.findall(st)]
                lib = [a for a, b in fr if not any(x in b for x in ('drv.c', '.inc', 'libtsan', 'tsan_', 'libc', 'libpthread')) and not a.startswith(('__tsan', '__interceptor', 'malloc', 'free'))]
                tops.append(lib[0] if lib else None)
            libtops = [t for t in tops if t]
            key = 'tsan:%s:%s' % (kind, '|'.join(sorted(set(libtops))[:3]))
            out.append((bool(libtops), key, blk[:3000]))
        try: os.unlink(fn)
        except OSError: pass
    return out

def map_regions(exe):
    """writable static storage contributed by libmpir.a members (from the linker map)"""
    mp = exe + '.map'
    regs = []; pend = None
    for l in open(mp, errors='replace'):
        m = re.match(r'^\s*(\.(?:data|bss)\S*)\s+0x([0-9a-f]+)\s+0x([0-9a-f]+)\s+(\S+)', l)
        if m: sec, a, n, src = m.groups()
        else:
            m1 = re.match(r'^\s*(\.(?:data|bss)\S*)\s*$', l)
            if m1: pend = m1.group(1); continue
            m2 = re.match(r'^\s+0x([0-9a-f]+)\s+0x([0-9a-f]+)\s+(\S+)', l)
            if pend and m2: sec = pend; a, n, src = m2.groups(); pend = None
            else: pend = None; continue
        mm = re.search(r'libmpir\.a\((\S+)\)', src)
        if mm and int(n, 16) > 0 and '.rel.ro' not in sec:
            regs.append((int(a, 16), int(n, 16), mm.group(1) + sec))
    return regs

def scenario(a):
    tier, variant, T, same, wid, sd, ncmds, cold = a
    signal.signal(signal.SIGINT, signal.SIG_IGN)
    t0 = time.time()
    res = dict(evaluations=0, cases=0, tags=set(), failures=[], samples=[], ops={}, notes=[], harness_errors=[], unrepro=0, stat={}, overlap=0, tsan_reports=0, regions=0)
    def fail(key, detail, cmds=None, stderr=''):
        if sum(1 for f in res['failures'] if f['key'] == key) < 2:
            res['failures'].append(dict(key=key, detail=str(detail)[:1500], variant=variant, spec={'T': T, 'same': same, 'seed': sd, 'wid': wid, 'cold': cold}, cmds=(cmds or [])[:40], replies=[], stderr=stderr[-4000:]))
    try:
        r = random.Random((sd * 7919 + wid * 104729 + T) & 0xffffffffffff)
        env = runner.Env(variant, 'quick'); exe = bld.ensure_driver(variant)
        setup = shared_setup(r)
        if cold: setup = [c for c in setup if c.startswith('z ')]      # no library call before the threads start
        warm = [] if cold else ['cpuvec']
        if same:
            sc = make_script(r, env, ncmds); scripts_c = [sc] * T
        else:
            scripts_c = [make_script(r, env, ncmds) for _ in range(T)]
        if cold:
            # first-ever use of the library's mpn layer happens concurrently in all threads
            scripts_c = [[(['c mpz_mul Z40 SZ1 SZ2', 'c mpz_add Z41 Z40 SZ1', 'c mpz_tdiv_q_ui Z41 Z41 #3'] * 20, None)] for _ in range(T)]
        flat = [[c for cmds, case in s for c in cmds] for s in scripts_c]
        tsan = variant.startswith('tsan')
        logp = None; envv = {}
        if tsan:
            logp = os.path.join(bld.vdir(variant), 'tsanlog-%d-%d-%d' % (os.getpid(), T, wid))
            envv = {'TSAN_OPTIONS': 'halt_on_error=0:log_path=%s:report_signal_unsafe=0:history_size=4' % logp}
        dseg = []
        if not tsan:
            regs = map_regions(exe)
            dseg = ['dseg ' + ' '.join('%x:%x:%s' % rg for rg in regs), 'cpuvec', 'dsnap']; res['regions'] = len(regs)
        try:
            hdr, outs = run_par(exe, setup + warm + dseg, flat, 63, env=envv)
        except rpc.DrvDied as e:
            fail(runner.report_key(e.stderr, e.crashline, 'par'), 'driver died in threaded run T=%d: %s' % (T, e.crashline), stderr=e.stderr)
            res['wall'] = time.time() - t0; return res
        m = re.search(r'overlapping_calls=(\d+) functions_overlapped=(\d+) max_simultaneous_same_function=(\d+)', hdr)
        res['overlap'] = int(m.group(1)); res['functions_overlapped'] = int(m.group(2)); res['maxsim'] = int(m.group(3))
        # monitors inside the threads
        for i, (th, reps) in enumerate(outs):
            mm = re.match(r'T\d+ lines=(\d+) live_after_clear=(\d+) viol=(\d+)', th)
            if not mm: res['harness_errors'].append('bad thread header %r' % th[:80]); continue
            if int(mm.group(2)) != 0: fail('leak:thread-pool-blocks-live-after-clear', th)
            for cmd, rp in zip(flat[i], reps):
                if '!' in rp:
                    for t in rp.split():
                        if t.startswith('!'): fail('monitor:%s:%s' % (re.sub(r'\(.*', '', t[1:]), runner.cmd_fn(cmd)), '%s thread %d: %s -> %s' % (t, i, cmd[:120], rp[:160]))
                if rp.startswith('?ERR'): res['harness_errors'].append('%s -> %s' % (cmd[:100], rp[:100]))
        if tsan:
            for islib, key, txt in tsan_reports(logp):
                res['tsan_reports'] += 1
                if cold and 'cpuvec_init' in txt: key = 'tsan:fat-cold-start:__gmpn_cpuvec_init'
                if islib or 'cpuvec' in txt: fail(key, 'ThreadSanitizer report (T=%d same=%s cold=%s)' % (T, same, cold), stderr=txt)
                else: res['harness_errors'].append('TSan report without a library frame: %s' % txt[:600])
        else:
            d = rpc.Drv(exe)
            # the data-segment check needs the same process: rerun a short threaded workload with ddiff at the end
            try:
                d.batch(setup + dseg)
                cmds = ['par %d 63' % min(T, 8)]
                for s in flat[:min(T, 8)]: cmds += s[:400] + ['--']
                want = 1 + min(T, 8) + sum(len(s[:400]) for s in flat[:min(T, 8)])
                d.batch(cmds, want=want, timeout=900)
                dd = d.batch(['ddiff'])[0]
            finally:
                d.close()
            changed = dd.split()[1:-3] if 'changed=' in dd else []
            for nm in changed:
                if not nm.startswith(DOCUMENTED_GLOBALS): fail('static-state-modified:%s' % nm, 'writable static storage of libmpir.a changed during the threaded workload: %s' % dd[:300])
            res['ddiff'] = dd
        # serial runs (one script per distinct script) judged by the oracles, and thread-vs-serial comparison
        if not cold:
            distinct = [0] if same else list(range(T))
            for i in distinct:
                try:
                    h2, o2 = run_par(exe, setup + warm, [flat[i]], 0, timeout=1800)
                except rpc.DrvDied as e:
                    fail(runner.report_key(e.stderr, e.crashline, 'serial'), 'driver died in serial run: %s' % e.crashline, stderr=e.stderr); continue
                sreps = o2[0][1]
                # oracle on the serial replies
                k = 0
                for cmds, case in scripts_c[i]:
                    sl = sreps[k:k + len(cmds)]; k += len(cmds)
                    if case is not None:
                        res['evaluations'] += case.ncalls; res['cases'] += 1
                        if case.tag is not None: res['tags'].add(hash((variant, T, same, case.tag)) & 0xffffffffffff)
                        try:
                            for key, detail in (case.check(sl) or []): fail('serial-oracle:' + key, detail, cmds)
                        except Exception as ex:
                            res['harness_errors'].append('check raised %s on %s' % (ex, str(case.spec)[:200]))
                for j in ([i] if not same else range(T)):
                    treps = outs[j][1]
                    if treps != sreps:
                        kk = next(x for x in range(min(len(treps), len(sreps))) if treps[x] != sreps[x])
                        fail('threaded-differs-from-serial:%s' % runner.cmd_fn(flat[j][kk]), 'thread %d of %d at %r: %s | serial %s' % (j, T, flat[j][kk][:120], treps[kk][:160], sreps[kk][:160]), flat[j][max(0, kk - 5):kk + 1])
                        break
                res['evaluations'] += sum(c.ncalls for cmds, c in scripts_c[i] if c) * (T if same else 1)
        if len(res['samples']) < 2: res['samples'].append({'variant': variant, 'threads': T, 'same_script': same, 'commands_per_thread': len(flat[0]), 'overlapping_calls': res['overlap'], 'cold_start': cold})
    except Exception as ex:
        res['harness_errors'].append('scenario %s T=%d: %s\n%s' % (variant, T, ex, traceback.format_exc()[-1500:]))
    res['wall'] = time.time() - t0
    return res

def static_sweep(a):
    """single-threaded, function-complete companion of the threaded runs: every generic function of the table is called on edge operands (the
    C04 edge cases) and after each function's calls the writable static storage of libmpir.a must be what it was before, apart from the
    state the manual documents as global.  A hidden cache, lazily built table or scratch variable shows up here whatever the schedule."""
    variant, sd, K = a
    signal.signal(signal.SIGINT, signal.SIG_IGN)
    import c04
    res = dict(failures=[], calls=0, functions=0, harness_errors=[], regions=0, changed_documented=set())
    try:
        exe = bld.ensure_driver(variant); regs = map_regions(exe); res['regions'] = len(regs)
        r = random.Random((sd * 31 + 0x51a71c) & 0xffffffffffff)
        d = rpc.Drv(exe)
        try:
            d.batch(['dseg ' + ' '.join('%x:%x:%s' % rg for rg in regs), 'cpuvec', 'c gmp_randseed_ui R0 #5', 'dsnap'])
            for name in c04.EDGE_FNS:
                cmds = []
                for j in range(K):
                    for mode in ('edge', 'rand'):
                        case = c04.edge_build(('edge', name, (j * 17 + 3) % 156, r.getrandbits(48), mode), None)
                        if case is not None: cmds += case.cmds
                if not cmds: continue
                try:
                    rep = d.batch(cmds + ['ddiff', 'dsnap'], timeout=600)
                except rpc.DrvDied as e:
                    res['harness_errors'].append('static sweep: driver died in %s: %s' % (name, e.crashline)); break
                dd = rep[-2]; res['calls'] += sum(1 for c in cmds if c.startswith('c ')); res['functions'] += 1
                changed = dd.split()[1:-3] if 'changed=' in dd else []
                for nm in changed:
                    if nm.startswith(DOCUMENTED_GLOBALS): res['changed_documented'].add(nm); continue
                    if len(res['failures']) < 6:
                        res['failures'].append(dict(key='static-state-modified:%s' % nm, detail='writable static storage of libmpir.a changed while %s was being called (single thread): %s' % (name, dd[:300]),
                                                    variant=variant, spec={'static_sweep': name, 'seed': sd}, cmds=cmds[:60], replies=[], stderr=''))
        finally:
            d.close()
    except Exception as ex:
        res['harness_errors'].append('static sweep: %s\n%s' % (ex, traceback.format_exc()[-800:]))
    res['changed_documented'] = sorted(res['changed_documented'])
    return res

def main(argv):
    ap = argparse.ArgumentParser(); ap.add_argument('--tier', default=os.environ.get('VERIF_TIER', 'quick')); ap.add_argument('--replay'); ap.add_argument('--variants')
    a = ap.parse_args(argv)
    t0 = time.time(); q = a.tier == 'quick'
    variants = a.variants.split(',') if a.variants else VARIANTS[a.tier]
    try:
        bld.ensure_variants(variants)
        for v in variants: bld.ensure_driver(v)
    except bld.BuildError as e:
        runner.finish(PID, a.tier, LEVEL, [], dict(evaluations=0, distinct_nontrivial=0, rule=RULE, samples=[]), ASSUMPTIONS, t0, inconclusive='build failed: %s' % e)
    sd = runner.seed()
    if a.replay:
        j = json.load(open(a.replay)); sp = j['spec']
        jobs = [(a.tier, j['variant'], sp['T'], sp['same'], sp['wid'], sp['seed'], 2000 if q else 20000, sp.get('cold', False))]
    else:
        jobs = []
        ncmds = 2000 if q else 50000
        wid = 0
        for v in variants:
            plan = [(T, same) for T in (8, 16, 32) for same in (True, False)]
            if q: plan = {'tsan': [(8, True), (16, False), (32, True), (8, False)], 'tsan-fat': [(16, True), (8, False)], 'plain': [(8, False), (32, True), (16, False)]}.get(v, plan[:3])
            for T, same in plan:
                for rep in range(1 if q else 3):
                    n = ncmds if not (q and v.startswith('tsan')) else 700
                    wid += 1; jobs.append((a.tier, v, T, same, wid, sd, n if T < 32 else n // 2, False))
            if 'fat' in v:
                wid += 1; jobs.append((a.tier, v, 8, True, wid, sd, 0, True))
    # the threaded runs themselves use many cores: limit the number of simultaneous scenarios
    with multiprocessing.get_context('fork').Pool(3 if q else 4) as pool:
        results = pool.map(scenario, jobs, chunksize=1)
    agg = dict(evaluations=0, cases=0, tags=set(), failures=[], samples=[], harness_errors=[], notes=[])
    ss = None
    if not a.replay:
        ss = static_sweep(('plain' if 'plain' in variants else variants[-1], sd, 12 if q else 120))
        agg['failures'] += ss['failures']; agg['harness_errors'] += ss['harness_errors']; agg['evaluations'] += ss['calls']
        agg['tags'] |= {hash(('static', i)) & 0xffffffffffff for i in range(ss['functions'])}
    overlap = 0; per = {}; tsr = 0
    for jb, r in zip(jobs, results):
        agg['evaluations'] += r['evaluations']; agg['cases'] += r['cases']; agg['tags'] |= r['tags']; agg['failures'] += r['failures']; agg['samples'] += r['samples']
        agg['harness_errors'] += r['harness_errors']; overlap += r.get('overlap', 0); tsr += r.get('tsan_reports', 0)
        pv = per.setdefault(jb[1], dict(scenarios=0, overlapping_calls=0, max_simultaneous_same_function=0, wall=0)); pv['scenarios'] += 1; pv['overlapping_calls'] += r.get('overlap', 0)
        pv['max_simultaneous_same_function'] = max(pv['max_simultaneous_same_function'], r.get('maxsim', 0)); pv['wall'] += round(r.get('wall', 0))
        if 'ddiff' in r: pv['data_segment'] = r['ddiff']; pv['static_regions_monitored'] = r.get('regions')
    cov = dict(evaluations=agg['evaluations'], distinct_nontrivial=len(agg['tags']), rule=RULE, samples=agg['samples'][:8], variants=variants, scenarios=len(jobs), per_variant=per,
               overlapping_calls=overlap, tsan_reports_seen=tsr, tree=bld.tree_hash(),
               static_sweep=None if ss is None else dict(functions=ss['functions'], calls=ss['calls'], regions_monitored=ss['regions'], documented_globals_seen_changing=ss['changed_documented']))
    inconc = None
    if overlap == 0 and not a.replay: inconc = 'no overlapping calls were observed: the threads did not run concurrently'
    runner.finish(PID, a.tier, LEVEL, agg['failures'], cov, ASSUMPTIONS, t0, harness_errors=agg['harness_errors'], inconclusive=inconc)
