"""C11 comparisons and conversions to/from C types agree with exact arithmetic."""
import random, math
from fractions import Fraction
from runner import Case
from rpc import hx, I, split_reply, parse_f
import gen, models
from gen import B, M

PID = 'C11'
LEVEL = 'exploration'
VARIANTS = {'quick': ['asan', 'plain', 'none'], 'thorough': ['asan', 'plain', 'none', 'pinned']}
RULE = ('[also: mpq partners that agree on every low limb of numerator/denominator and differ only above them or lack the top limb] integers +-(2^k+d), k in {0,7,8,15,16,31,32,52,53,54,63,64,65,127,128,1023,1024,1025,1074}, d in -2..2; values with 54..130 '
        'significant bits whose discarded part is just below / exactly / just above one half; doubles +-(1+j*2^-52)*2^e at boundary e, '
        'subnormals, +-0, +-inf, DBL_MAX; rationals with huge/small exponent difference; mpf with exponents +-1,+-16,+-17,+-1100 limbs. '
        'All mpz/mpq/mpf cmp functions judged by the exact order (sign only), set/get/fits functions by exact truncation models; run on '
        'asan (-O1), plain (-O2) and the generic-C build because undefined behaviour in the conversions shows at one optimisation level '
        'only. distinct = (group, value class, boundary k, delta / double class); trivial = value 0')
ASSUMPTIONS = ['NaN is never generated (undefined per manual)', 'get_d overflow accepts +-inf and +-DBL_MAX',
               'driver prints doubles with %a (exact)']

KS = [0, 7, 8, 15, 16, 31, 32, 52, 53, 54, 63, 64, 65, 127, 128, 1023, 1024, 1025, 1074]
DBL_MAX = float.fromhex('0x1.fffffffffffffp+1023')

def dtok(d):
    if math.isinf(d): return 'dinf' if d > 0 else 'd-inf'
    return 'd' + d.hex()

def ftoks(name, mant, e2, prec=None):
    """'f' command for value mant*2^e2 (mant any int)"""
    if mant == 0: return 'f %s %d 0 0 0' % (name, prec or 64)
    s = e2 % 64; m = abs(mant) << s; e = (e2 - s) // 64
    size = gen.nlimbs(m); exp = size + e
    p = max(prec or 0, 64 * size, 64)
    return 'f %s %d %d %d %s' % (name, p, exp, -size if mant < 0 else size, '%x' % m)

def cmpx(x, y):
    return (x > y) - (x < y)

def rand_int(r):
    c = r.random()
    if c < 0.5:
        k = r.choice(KS); return r.choice([1, -1]) * ((1 << k) + r.randint(-2, 2))
    if c < 0.75:
        # > 53 significant bits, discarded part around one half
        nb = r.randint(54, 130); top = r.getrandbits(53) | (1 << 52); drop = nb - 53
        half = 1 << (drop - 1)
        low = r.choice([half - 1, half, half + 1, 0, (1 << drop) - 1, 1]) if drop > 1 else r.randint(0, 1)
        return r.choice([1, -1]) * (((top << drop) | low) << r.choice([0, 0, 7, 64, 900]))
    return gen.val(r, 5)

def rand_double(r):
    c = r.random()
    if c < 0.12: return r.choice([0.0, -0.0, math.inf, -math.inf, DBL_MAX, -DBL_MAX, 5e-324, -5e-324, 2.2250738585072014e-308, 1.0, -1.0, 0.5, -0.5])
    if c < 0.55:
        e = r.choice([-1074, -1073, -1023, -1022, -1021, -64, -1, 0, 1, 31, 32, 52, 53, 54, 62, 63, 64, 65, 127, 128, 1022, 1023])
        j = r.choice([0, 1, 2, (1 << 52) - 1, (1 << 52) - 2, r.getrandbits(52)])
        if e < -1022: return r.choice([1, -1]) * math.ldexp(max(1, j >> (-1022 - e)), -1074)
        return r.choice([1, -1]) * math.ldexp(1 + j * 2.0 ** -52, e)
    if c < 0.8: return float(r.getrandbits(53)) * 2.0 ** r.randint(-80, 100) * r.choice([1, -1])
    return r.choice([1, -1]) * float(r.randint(0, 1 << 20))

def specs(rng, tier, wid, nw, env):
    q = tier == 'quick'
    k = 0
    for kk in KS:
        for d in range(-2, 3):
            for s in (1, -1):
                k += 1
                if k % nw == wid: yield ('zint', s * ((1 << kk) + d), rng.getrandbits(48))
    # mpq_get_d / mpz_get_d / mpf_get_d at the ends of double's range: quotients of every size relation (numerator 1..12 limbs, denominator
    # up to 18 limbs longer or shorter) whose exact value lies in the denormal range, around DBL_MIN, around DBL_MAX (A50: a size-based
    # 'certainly zero' shortcut one limb too early)
    for i in range(1500 if q else 30000):
        k += 1
        if k % nw == wid: yield ('qd', rng.getrandbits(48))
    N = 4000 if q else 130000
    for i in range(N):
        c = rng.random()
        if c < 0.35: yield ('zint', None, rng.getrandbits(48))
        elif c < 0.55: yield ('zdbl', rng.getrandbits(48))
        elif c < 0.75: yield ('q', rng.getrandbits(48))
        else: yield ('f', rng.getrandbits(48))

def fits_str(y):
    return ''.join(str(int(lo <= y <= hi)) for lo, hi in [(-2 ** 31, 2 ** 31 - 1), (-2 ** 63, 2 ** 63 - 1), (-2 ** 63, 2 ** 63 - 1), (-2 ** 15, 2 ** 15 - 1), (0, 2 ** 32 - 1), (0, 2 ** 64 - 1), (0, 2 ** 64 - 1), (0, 2 ** 16 - 1)])
FITS = ['sint', 'si', 'slong', 'sshort', 'uint', 'ui', 'ulong', 'ushort']

def ok_get_d(got, exact_fr):
    e = models.trunc_frac_d(exact_fr)
    if got == e and (got != 0 or True): return True
    if math.isinf(e) and abs(got) == DBL_MAX and (got > 0) == (e > 0): return True
    return False

def build(spec, env):
    kind = spec[0]; r = random.Random(spec[-1])
    if kind == 'zint':
        x = spec[1] if spec[1] is not None else rand_int(r)
        y = r.choice([x, x + 1, x - 1, -x, rand_int(r), x ^ 1])
        ui = r.choice([abs(x) & M, (abs(x) + 1) & M, abs(y) & M, 0, 1, M, 1 << 63, r.getrandbits(64)])
        si = max(-(1 << 63), min((1 << 63) - 1, r.choice([x, y, -x, x + 1, 0, -1, (1 << 63) - 1, -(1 << 63)])))
        cmds = ['z Z1 %s' % hx(x), 'z Z2 %s' % hx(y), 'c mpz_cmp Z1 Z2', 'c mpz_cmpabs Z1 Z2', 'c mpz_cmp_ui Z1 #%d' % ui, 'c mpz_cmp_si Z1 #%d' % si,
                'c mpz_cmpabs_ui Z1 #%d' % ui, 'c mpz_sgn Z1', 'c _cmp_ui_fn Z1 #%d' % ui if False else 'ping']
        cmds += ['c mpz_fits_%s_p Z1' % f for f in FITS]
        cmds += ['c mpz_get_ui Z1', 'c mpz_get_si Z1', 'c mpz_get_ux Z1', 'c mpz_get_sx Z1', 'c mpz_get_d Z1', 'c mpz_get_d_2exp & Z1',
                 'c mpz_set_ui Z3 #%d' % ui, 'c mpz_set_si Z3 #%d' % si, 'c mpz_set_ux Z3 #%d' % ui, 'c mpz_set_sx Z3 #%d' % si]
        def check(rep, x=x, y=y, ui=ui, si=si):
            out = []; d = 'x=%s' % hx(x)[:70]
            exp = [('mpz_cmp', cmpx(x, y)), ('mpz_cmpabs', cmpx(abs(x), abs(y))), ('mpz_cmp_ui', cmpx(x, ui)), ('mpz_cmp_si', cmpx(x, si)), ('mpz_cmpabs_ui', cmpx(abs(x), ui)), ('mpz_sgn', cmpx(x, 0))]
            for i, (fn, e) in enumerate(exp):
                v, _ = split_reply(rep[2 + i]); g = int(v[0])
                if cmpx(g, 0) != e: out.append(('%s:wrong-sign' % fn, d + ' y=%s ui=%d si=%d got=%d want=%d' % (hx(y)[:50], ui, si, g, e)))
            fs = ''.join(str(int(int(split_reply(rep[9 + i])[0][0]) != 0)) for i in range(8))
            if fs != fits_str(x):
                bad = [FITS[i] for i in range(8) if fs[i] != fits_str(x)[i]]
                out.append(('mpz_fits_%s_p:wrong' % bad[0], d + ' got=%s want=%s' % (fs, fits_str(x))))
            gu = abs(x) & M; gs = abs(x) & (2 ** 63 - 1); gs = -gs if x < 0 else gs
            v = [split_reply(rep[17 + i])[0] for i in range(6)]
            if int(v[0][0]) != gu: out.append(('mpz_get_ui:wrong', d + ' got=%s' % v[0][0]))
            if int(v[2][0]) != gu: out.append(('mpz_get_ux:wrong', d + ' got=%s' % v[2][0]))
            if -2 ** 63 <= x < 2 ** 63:
                if int(v[1][0]) != x: out.append(('mpz_get_si:wrong', d + ' got=%s' % v[1][0]))
                if int(v[3][0]) != x: out.append(('mpz_get_sx:wrong', d + ' got=%s' % v[3][0]))
            gd = float.fromhex(v[4][0]) if 'inf' not in v[4][0] else (math.inf if v[4][0][0] != '-' else -math.inf)
            e = models.trunc_d(x)
            if not (gd == e or (math.isinf(e) and abs(gd) == DBL_MAX and (gd > 0) == (e > 0))): out.append(('mpz_get_d:wrong', d + ' got=%s want=%s' % (v[4][0], e.hex())))
            m = float.fromhex(v[5][0]); ex = int(v[5][1])
            if x == 0: ok = (m == 0.0 and ex == 0)
            else:
                bl = abs(x).bit_length(); tr = abs(x) >> max(0, bl - 53) << max(0, bl - 53)
                ok = 0.5 <= abs(m) < 1 and ex == bl and (m < 0) == (x < 0) and Fraction(abs(m)) * Fraction(2) ** ex == tr
            if not ok: out.append(('mpz_get_d_2exp:wrong', d + ' got=%s,%d' % (v[5][0], ex)))
            for i, (fn, e) in enumerate((('mpz_set_ui', ui), ('mpz_set_si', si), ('mpz_set_ux', ui), ('mpz_set_sx', si))):
                o, _ = split_reply(rep[23 + i])
                if I(o[0]) != e: out.append(('%s:wrong' % fn, 'arg=%d got=%s' % (e, o[0])))
            return out
        bl = abs(x).bit_length()
        return Case(cmds, check, 24, ('zint', bl if bl in KS or bl - 1 in KS or bl < 70 else 200 + bl // 64, x < 0, x % 4), trivial=(x == 0))
    if kind == 'zdbl':
        x = rand_int(r); dd = r.choice([rand_double(r), models.trunc_d(x), models.trunc_d(x + r.choice([-1, 1]))])
        if math.isinf(dd) and r.random() < 0.5: dd = rand_double(r)
        cmds = ['z Z1 %s' % hx(x), 'c mpz_cmp_d Z1 %s' % dtok(dd), 'c mpz_cmpabs_d Z1 %s' % dtok(dd)]
        fin = not math.isinf(dd)
        cmds.append('c mpz_set_d Z2 %s' % dtok(dd) if fin else 'ping')
        def check(rep, x=x, dd=dd, fin=fin):
            out = []; d = 'x=%s d=%s' % (hx(x)[:60], dd.hex() if fin else dd)
            if fin: e1 = cmpx(Fraction(x), Fraction(dd)); e2 = cmpx(Fraction(abs(x)), abs(Fraction(dd)))
            else: e1 = -1 if dd > 0 else 1; e2 = -1
            v, _ = split_reply(rep[1])
            if cmpx(int(v[0]), 0) != e1: out.append(('mpz_cmp_d:wrong-sign', d + ' got=%s want=%d' % (v[0], e1)))
            v, _ = split_reply(rep[2])
            if cmpx(int(v[0]), 0) != e2: out.append(('mpz_cmpabs_d:wrong-sign', d + ' got=%s want=%d' % (v[0], e2)))
            if fin:
                v, _ = split_reply(rep[3])
                if I(v[0]) != int(dd): out.append(('mpz_set_d:wrong', d + ' got=%s' % v[0][:60]))
            return out
        return Case(cmds, check, 3 if fin else 2, ('zdbl', min(abs(x).bit_length(), 1100) // 8, math.frexp(dd)[1] // 8 if fin else 9999, dd < 0))
    if kind == 'q':
        def rq():
            c = r.random()
            if c < 0.3: n = rand_int(r); d = abs(rand_int(r)) or 1
            elif c < 0.6: n = gen.val(r, 3); d = abs(gen.val(r, 3)) or 1
            elif c < 0.8: n = r.choice([1, -1, 3, r.getrandbits(60) | 1]); d = (1 << r.choice([1022, 1023, 1024, 1074, 1075, 1076, 2000, 5000])) + r.choice([0, 1])
            else: n = (r.getrandbits(70) | 1) << r.choice([0, 960, 1000, 1023, 1024]); d = r.getrandbits(60) | 1
            g = math.gcd(n, d); return Fraction(n, d)
        def near(a):
            # partners that agree with a on every low limb of numerator and denominator and differ only in limbs above them (or lack a's top limb):
            # an equality / comparison that walks the limbs of one operand with the size of the other cannot tell them apart (A93)
            n, d = a.numerator, a.denominator
            for _ in range(30):
                k_ = r.choice([1, 1, r.getrandbits(20) | 1]); j = r.randint(0, 2); mode = r.choice(['den+', 'den+', 'num+', 'den-top', 'num-top'])
                n2, d2 = n, d
                if mode == 'den+': d2 = d + (k_ << (64 * (gen.nlimbs(d) + j)))
                elif mode == 'num+': n2 = n + (1 if n >= 0 else -1) * (k_ << (64 * (gen.nlimbs(abs(n)) + j)))
                elif mode == 'den-top' and gen.nlimbs(d) > 1: d2 = d & ((1 << (64 * (gen.nlimbs(d) - 1))) - 1)
                elif mode == 'num-top' and gen.nlimbs(abs(n)) > 1: n2 = (abs(n) & ((1 << (64 * (gen.nlimbs(abs(n)) - 1))) - 1)) * (1 if n >= 0 else -1)
                if d2 > 0 and n2 != 0 and (n2, d2) != (n, d) and math.gcd(n2, d2) == 1: return Fraction(n2, d2)
            return a
        a = rq(); b = r.choice([a, -a, rq(), a + Fraction(1, 1 << 200), Fraction(a.numerator + 1, a.denominator), near(a), near(a), near(a)])
        if r.random() < 0.3: a, b = b, a
        z = r.choice([a.numerator // a.denominator, a.numerator // a.denominator + 1, gen.val(r, 2)])
        un = r.choice([abs(a.numerator) & M, r.getrandbits(64), 0, 1]); ud = r.choice([a.denominator & M, r.getrandbits(64), 1, M]) or 1
        sn = max(-(1 << 63), min((1 << 63) - 1, r.choice([a.numerator, -a.numerator, gen.val(r, 1)])))
        dd = rand_double(r)
        while math.isinf(dd): dd = rand_double(r)
        cmds = ['q Q1 %s %s' % (hx(a.numerator), hx(a.denominator)), 'q Q2 %s %s' % (hx(b.numerator), hx(b.denominator)), 'z Z1 %s' % hx(z),
                'c mpq_cmp Q1 Q2', 'c mpq_equal Q1 Q2', 'c mpq_cmp_z Q1 Z1', 'c mpq_cmp_ui Q1 #%d #%d' % (un, ud), 'c mpq_cmp_si Q1 #%d #%d' % (sn, ud),
                'c mpq_sgn Q1', 'c mpq_get_d Q1', 'c mpq_set_d Q3 %s' % dtok(dd)]
        def check(rep, a=a, b=b, z=z, un=un, ud=ud, sn=sn, dd=dd):
            out = []; d = 'a=%s/%s' % (hx(a.numerator)[:50], hx(a.denominator)[:50])
            exp = [('mpq_cmp', cmpx(a, b)), None, ('mpq_cmp_z', cmpx(a, z)), ('mpq_cmp_ui', cmpx(a, Fraction(un, ud))), ('mpq_cmp_si', cmpx(a, Fraction(sn, ud))), ('mpq_sgn', cmpx(a, 0))]
            for i, e in enumerate(exp):
                v, _ = split_reply(rep[3 + i])
                if e is None:
                    if (int(v[0]) != 0) != (a == b): out.append(('mpq_equal:wrong', d))
                elif cmpx(int(v[0]), 0) != e[1]: out.append(('%s:wrong-sign' % e[0], d + ' b=%s/%s z=%s un=%d ud=%d sn=%d got=%s want=%d' % (hx(b.numerator)[:40], hx(b.denominator)[:40], hx(z)[:30], un, ud, sn, v[0], e[1])))
            v, _ = split_reply(rep[9]); s = v[0]
            gd = (math.inf if s[0] != '-' else -math.inf) if 'inf' in s else float.fromhex(s)
            if not ok_get_d(gd, a): out.append(('mpq_get_d:wrong', d + ' got=%s want=%s' % (s, models.trunc_frac_d(a).hex())))
            v, _ = split_reply(rep[10]); n_, d_ = v[0].split('/')
            if Fraction(I(n_), I(d_)) != Fraction(dd) or math.gcd(I(n_), I(d_)) != 1 or I(d_) <= 0: out.append(('mpq_set_d:wrong', 'd=%s got=%s' % (dd.hex(), v[0][:80])))
            return out
        ex = a.numerator.bit_length() - a.denominator.bit_length()
        return Case(cmds, check, 8, ('q', ex // 16 if abs(ex) < 1200 else 999 * (1 if ex > 0 else -1), a < 0, a == b), trivial=(a == 0))
    if kind == 'qd':
        nb = r.choice([r.randint(1, 64), r.randint(1, 64), r.randint(65, 200), r.randint(200, 800), 64 * r.randint(1, 12) + r.choice([-1, 0, 1])])
        et = r.choice([r.randint(-1140, -1060), r.randint(-1080, -1070), r.randint(-1030, -1015), r.randint(1015, 1030), r.randint(-1200, 1200), -1074, -1075, -1022, -1023, 1023, 1024])
        n = r.getrandbits(nb) | (1 << (nb - 1)) | 1
        db = nb - et
        if db >= 1:
            d = r.getrandbits(db) | (1 << (db - 1))
            if r.random() < 0.5: d = 1 << (db - 1)            # power of two denominator: the quotient's mantissa is the numerator itself
            else: d |= 1
            a = Fraction(n, d)
        else:
            a = Fraction(n << (1 - db), 1)
        if r.random() < 0.4: a = -a
        fm = a.numerator; fe = -(a.denominator.bit_length() - 1) if a.denominator & (a.denominator - 1) == 0 else None
        cmds = ['q Q1 %s %s' % (hx(a.numerator), hx(a.denominator)), 'c mpq_get_d Q1']
        if fe is not None: cmds += [ftoks('F1', fm, fe), 'c mpf_get_d F1']
        if a.denominator == 1: cmds += ['z Z1 %s' % hx(a.numerator), 'c mpz_get_d Z1']
        def check(rep, a=a):
            out = []
            for i_, c_ in enumerate(cmds):
                if not c_.startswith('c '): continue
                v, _ = split_reply(rep[i_]); s_ = v[0]
                gd = (math.inf if s_[0] != '-' else -math.inf) if 'inf' in s_ else float.fromhex(s_)
                if not ok_get_d(gd, a): out.append(('%s:wrong' % c_.split()[1], 'a=%s/%s got=%s want=%s' % (hx(a.numerator)[:60], hx(a.denominator)[:40] + ('..(%d bits)' % a.denominator.bit_length()), s_, models.trunc_frac_d(a).hex())))
            return out
        ex = a.numerator.bit_length() - a.denominator.bit_length()
        return Case(cmds, check, len([c_ for c_ in cmds if c_.startswith('c ')]), ('qd', max(-1150, min(1100, ex)) // 4, gen.nlimbs(a.denominator) - gen.nlimbs(a.numerator), a < 0))
    if kind == 'f':
        def rf():
            c = r.random()
            if c < 0.35: m = rand_int(r); e2 = r.choice([0, 0, -1, -64, -65, 64])
            elif c < 0.7: m = gen.val(r, 4); e2 = 64 * r.choice([0, 1, -1, 16, -16, 17, -17, 1100, -1100]) + r.choice([0, 0, 1, 63])
            else: m = r.getrandbits(r.randint(1, 130)) * r.choice([1, -1]); e2 = r.randint(-1200, 1200)
            return m, e2
        m1, e1 = rf(); m2, e2 = r.choice([(m1, e1), (-m1, e1), rf(), (m1 + 1, e1), (m1 * 2, e1 - 1), (m1 << 64, e1 - 64)])
        a = Fraction(m1) * Fraction(2) ** e1; b = Fraction(m2) * Fraction(2) ** e2
        z = r.choice([int(a) if abs(a) < 1 << 5000 else 0, int(a) + 1 if abs(a) < 1 << 5000 else 1, gen.val(r, 3)])
        ui = r.choice([int(abs(a)) & M if abs(a) < 1 << 5000 else 0, r.getrandbits(64), 0, 1, M]); si = max(-(1 << 63), min((1 << 63) - 1, r.choice([int(a) if abs(a) < 1 << 63 else 5, -1, 0, 1, (1 << 63) - 1, -(1 << 63)])))
        dd = r.choice([rand_double(r), models.trunc_frac_d(a)])
        cmds = [ftoks('F1', m1, e1), ftoks('F2', m2, e2), 'z Z1 %s' % hx(z), 'c mpf_cmp F1 F2', 'c mpf_cmp_z F1 Z1', 'c mpf_cmp_ui F1 #%d' % ui, 'c mpf_cmp_si F1 #%d' % si,
                'c mpf_cmp_d F1 %s' % dtok(dd) if not math.isinf(dd) else 'ping', 'c mpf_sgn F1', 'c mpf_get_d F1', 'c mpf_get_d_2exp & F1', 'c mpf_get_ui F1', 'c mpf_get_si F1', 'c mpf_integer_p F1']
        cmds += ['c mpf_fits_%s_p F1' % f for f in FITS]
        fin = not math.isinf(dd)
        cmds.append('c mpf_set_d F3 %s' % dtok(dd) if fin else 'ping')
        def check(rep, a=a, b=b, z=z, ui=ui, si=si, dd=dd, fin=fin, m1=m1, e1=e1):
            out = []; d = 'a=%s*2^%d' % (hx(m1)[:50], e1)
            exp = [('mpf_cmp', cmpx(a, b)), ('mpf_cmp_z', cmpx(a, z)), ('mpf_cmp_ui', cmpx(a, ui)), ('mpf_cmp_si', cmpx(a, si)), ('mpf_cmp_d', cmpx(a, Fraction(dd)) if fin else None), ('mpf_sgn', cmpx(a, 0))]
            for i, (fn, e) in enumerate(exp):
                if e is None: continue
                v, _ = split_reply(rep[3 + i])
                if cmpx(int(v[0]), 0) != e: out.append(('%s:wrong-sign' % fn, d + ' b=%s z=%s ui=%d si=%d dd=%s got=%s want=%d' % (b if abs(b) < 10 ** 20 else 'big', hx(z)[:30], ui, si, dd.hex() if fin else dd, v[0], e)))
            v, _ = split_reply(rep[9]); s = v[0]
            gd = (math.inf if s[0] != '-' else -math.inf) if 'inf' in s else float.fromhex(s)
            if not ok_get_d(gd, a): out.append(('mpf_get_d:wrong', d + ' got=%s want=%s' % (s, models.trunc_frac_d(a).hex())))
            v, _ = split_reply(rep[10]); m = float.fromhex(v[0]); ex = int(v[1])
            if a == 0: ok = m == 0.0 and ex == 0
            else:
                n_, d_ = abs(a).numerator, abs(a).denominator; bl = n_.bit_length() - d_.bit_length()
                if Fraction(2) ** bl <= abs(a): bl += 1
                # 2^(bl-1) <= |a| < 2^bl ; mantissa = trunc to 53 bits of a / 2^bl
                t = abs(a) / Fraction(2) ** bl; tm = Fraction(int(t * (1 << 53)), 1 << 53)
                ok = ex == bl and Fraction(abs(m)) == tm and (m < 0) == (a < 0)
            if not ok: out.append(('mpf_get_d_2exp:wrong', d + ' got=%s,%d' % (v[0], ex)))
            t = int(a) if abs(a) < Fraction(2) ** 6000 else None
            if t is not None:
                v, _ = split_reply(rep[11])
                if int(v[0]) != abs(t) & M: out.append(('mpf_get_ui:wrong', d + ' got=%s' % v[0]))
                if -2 ** 63 <= t < 2 ** 63:
                    v, _ = split_reply(rep[12])
                    if int(v[0]) != t: out.append(('mpf_get_si:wrong', d + ' got=%s' % v[0]))
                # fits: the manual says the fractional part is ignored (truncation)
                fs = ''.join(str(int(int(split_reply(rep[14 + i])[0][0]) != 0)) for i in range(8))
                if fs != fits_str(t):
                    bad = [FITS[i] for i in range(8) if fs[i] != fits_str(t)[i]]
                    out.append(('mpf_fits_%s_p:wrong' % bad[0], d + ' got=%s want=%s' % (fs, fits_str(t))))
            v, _ = split_reply(rep[13])
            if (int(v[0]) != 0) != (a.denominator == 1): out.append(('mpf_integer_p:wrong', d))
            if fin:
                v, _ = split_reply(rep[22]); p, e, sz, mag = parse_f(v[0])
                if models.mpf_value(p, e, sz, mag) != Fraction(dd): out.append(('mpf_set_d:wrong', 'd=%s got=%s' % (dd.hex(), v[0][:80])))
            return out
        return Case(cmds, check, 19, ('f', min(abs(m1).bit_length(), 140), e1 // 64 if abs(e1) < 70000 else 0, m1 < 0), trivial=(m1 == 0))
    raise ValueError(kind)
