"""C08 powers and modular powers are exact."""
import random, math
from runner import Case
from rpc import hx, I, split_reply
import gen
from gen import B, M

PID = 'C08'
LEVEL = 'exploration'
VARIANTS = {'quick': ['asan', 'plain'], 'thorough': ['asan', 'plain', 'asan-tdbg']}
RULE = ('[also: for C14, modulus sizes on both sides of every REDC/POWM/BINV threshold of each variant\'s own table] mpz_powm/powm_ui over moduli odd, even with 2-adic valuation 1,63,64,65,128 and whole zero low limbs, 2^k, +-1, '
        'sizes 1..12 limbs and around REDC_1_TO_REDC_2/REDC_2_TO_REDC_N/POWM thresholds, odd parts and power-of-two parts around BINV_NEWTON_THRESHOLD (299..303, 307, 451, 602, 606 limbs); bases negative, 0, 1, m-1, >m, multiples of m; '
        'exponents 0,1,2, all-ones of every length 1..70 and at each sliding-window breakpoint (7,25,81,241,673,1793,4609 bits)+-1, sparse '
        'and multi-limb exponents, negative exponents with invertible base; exponent 1/2 with |b| within a few limbs of m or of B^(n-1) and residues 1..n limbs; thin-band residues (b=+-1,+-2, small e); mpz_pow_ui / '
        'ui_pow_ui with 0^0, bases 0,+-1,+-2,2^k,B-1, multi-limb; judged by Python pow. distinct = (function, modulus class, size '
        'buckets, exponent class, base class); trivial = e==0 or |m|==1')
ASSUMPTIONS = ['Python pow(b,e,m) and ** are exact', 'negative exponent with non-invertible base, zero modulus: not generated (manual: division by zero)']

WIN = [7, 25, 81, 241, 673, 1793, 4609]

def szb(n):
    return n if n < 20 else 20 + n.bit_length() * 2

def make_mod(r, mn, mcls):
    if mcls == 'odd': return gen.nat(r, mn, r.choice(['rand', 'special', 'ones', 'top1'])) | 1
    if mcls == 'even':
        v = r.choice([1, 2, 63, 64, 65, 128, 64 * r.randint(1, 3), r.randint(1, 200)])
        o = gen.nat(r, mn, 'rand') | 1
        return o << v
    if mcls == 'pow2': return 1 << r.choice([1, 2, 63, 64, 65, 64 * mn, 64 * mn - 1, r.randint(1, 64 * mn + 3)])
    if mcls == 'one': return 1
    if mcls == 'near': return r.choice([(1 << (64 * mn)) - 1, (1 << (64 * mn)) + 1, (1 << (64 * mn - 1)) + 1, (1 << (64 * mn)) - 3])
    return gen.nat(r, mn)

def make_exp(r, ecls):
    if ecls == 'tiny': return r.choice([0, 1, 2, 3, 4])
    if ecls == 'ones': return (1 << r.randint(1, 70)) - 1
    if ecls == 'win': return r.choice([(1 << (w + d)) - r.choice([0, 1]) | 1 for w in WIN[:5] for d in (-1, 0, 1)]) | r.getrandbits(r.choice([0, 5, 60]))
    if ecls == 'winfull':
        w = r.choice(WIN[:4]) + r.choice([-1, 0, 1]); return (1 << (w - 1)) | r.getrandbits(w - 1)
    if ecls == 'sparse':
        e = 0
        for _ in range(r.randint(1, 4)): e |= 1 << r.randint(0, r.choice([70, 300, 1000]))
        return e
    if ecls == 'limbs': return gen.nat(r, r.randint(1, 4))
    return r.getrandbits(r.randint(1, 130))

def make_base(r, m, bcls):
    if bcls == 'small': return r.choice([0, 1, -1, 2, -2, 3])
    if bcls == 'm-1': return abs(m) - r.choice([1, 2])
    if bcls == 'mult': return abs(m) * r.choice([1, 2, -1, gen.val(r, 2)])
    if bcls == 'big': return gen.signed(r, gen.nlimbs(m) + r.randint(1, 3))
    if bcls == 'neg': return -gen.nat(r, max(1, gen.nlimbs(m)))
    return gen.val(r, max(1, gen.nlimbs(m)))

MCLS = ['odd', 'odd', 'even', 'even', 'pow2', 'near', 'one', 'rand']
ECLS = ['tiny', 'ones', 'win', 'winfull', 'sparse', 'limbs', 'rand']
BCLS = ['small', 'm-1', 'mult', 'big', 'neg', 'rand']

def c14_priority(rng, tier, env):
    """cases C14 replays on every build variant: modulus sizes on both sides of every REDC / POWM / BINV threshold of *that variant's* tuning table
    (the enumerated part of specs() only reaches them after thousands of small cases; A90: n == REDC_1_TO_REDC_2_THRESHOLD on the haswell table)"""
    th = env.th
    ts = [th.get(k) for k in ('REDC_1_TO_REDC_2_THRESHOLD', 'REDC_2_TO_REDC_N_THRESHOLD', 'REDC_1_TO_REDC_N_THRESHOLD', 'POWM_THRESHOLD', 'MUL_KARATSUBA_THRESHOLD', 'SQR_KARATSUBA_THRESHOLD', 'SQR_TOOM3_THRESHOLD')]
    ts = sorted({t for t in ts if t and 2 < t < 600})
    for mn in gen.around(ts, 1, None, (-1, 0, 1)):
        for mc in ('odd', 'odd', 'even'):
            for ec in ('rand', 'winfull', 'limbs'):
                if ec in ECLS: yield ('powm', mn, mc, ec, 'rand', rng.randint(0, 1), rng.getrandbits(48))
    bt = th.get('BINV_NEWTON_THRESHOLD', 300)
    if bt and bt < 1200:
        for n_ in (bt - 1, bt, bt + 1, bt + 3):
            yield ('binv', n_, 'odd', rng.getrandbits(48))

def specs(rng, tier, wid, nw, env):
    q = tier == 'quick'; th = env.th
    ts = [th.get(k) for k in ('REDC_1_TO_REDC_2_THRESHOLD', 'REDC_2_TO_REDC_N_THRESHOLD', 'REDC_1_TO_REDC_N_THRESHOLD', 'POWM_THRESHOLD')]
    ts = sorted({t for t in ts if t and 2 < t < 600})
    msizes = list(range(1, 13)) + gen.around(ts, 1, None, (-1, 0, 1)) + ([] if q else [200, 400])
    k = 0
    for mn in msizes:
        for mc in ['odd', 'even', 'pow2', 'near']:
            for ec in ECLS:
                for bc in (BCLS if mn <= 12 else ['rand', 'm-1']):
                    if mn > 40 and ec in ('winfull', 'limbs', 'win') and q and bc != 'rand': continue
                    k += 1
                    if k % nw == wid: yield ('powm', mn, mc, ec, bc, rng.randint(0, 1), rng.getrandbits(48))
    # mpn_binvert's Newton lifting (odd part or power-of-two part of the modulus >= BINV_NEWTON_THRESHOLD limbs): every size whose halving
    # chain contains odd lengths (A76: 301, 303, 451, 602 wrong, 300, 302, 600 right)
    bt = th.get('BINV_NEWTON_THRESHOLD', 300)
    if bt and bt < 1200:
        for n_ in sorted({bt - 1, bt, bt + 1, bt + 2, bt + 3, bt + 7, (3 * bt) // 2 + 1, 2 * bt + 2, 2 * bt + 6} | (set() if q else set(range(bt + 4, bt + 40)) | {4 * bt + 4, 4 * bt + 12})):
            for form in ('odd', 'odd', 'evenpart'):
                k += 1
                if k % nw == wid: yield ('binv', n_, form, rng.getrandbits(48))
    # exponent 1 (and 2): the b^1 shortcut; |b| just below / above B^(n-1), m - |b| several limbs shorter than m (F16)
    for mn in range(1, 10):
        for j in range(24 if q else 200):
            k += 1
            if k % nw == wid: yield ('e1', mn, j, rng.getrandbits(48))
    N = 20000 if q else 300000
    for i in range(N):
        c = rng.random()
        if c < 0.5: yield ('powm', rng.randint(1, 6), rng.choice(MCLS), rng.choice(ECLS), rng.choice(BCLS), rng.randint(0, 1), rng.getrandbits(48))
        elif c < 0.65: yield ('negexp', rng.randint(1, 6), rng.choice(['odd', 'even', 'pow2', 'rand']), rng.choice(ECLS), rng.getrandbits(48))
        elif c < 0.85: yield ('pow_ui', rng.choice(['mpz_pow_ui', 'mpz_ui_pow_ui']), rng.choice(['small', 'pow2', 'B-1', 'multi', 'rand']), rng.getrandbits(48))
        else: yield ('thin', rng.randint(1, 5), rng.getrandbits(48))

def build(spec, env):
    kind = spec[0]; r = random.Random(spec[-1])
    if kind == 'binv':
        _, n_, form, _s = spec
        if form == 'odd': m = gen.nat(r, n_, r.choice(['rand', 'special'])) | 1
        else: m = (gen.nat(r, 3) | 1) << (64 * n_ + r.choice([0, 0, 1, 63]))
        b = gen.signed(r, r.choice([1, 3, n_])); e = r.choice([2, 3, 65537, r.getrandbits(70) | 1])
        cmds = ['z Z1 %s' % hx(b), 'z Z2 %s' % hx(e), 'z Z3 %s' % hx(m), 'c mpz_powm Z0 Z1 Z2 Z3']
        def check(rep, b=b, e=e, m=m, n_=n_, form=form):
            v, _ = split_reply(rep[3])
            if I(v[0]) != pow(b, e, m): return [('mpz_powm:wrong:binvert', '%s part of %d limbs, e=%s' % (form, n_, hx(e)))]
        return Case(cmds, check, 1, ('binv', n_, form))
    if kind == 'e1':
        _, mn, j, _s = spec
        top = 1 << (64 * (mn - 1))
        m = top * r.choice([1, 1, 2, 1 << 63]) + (gen.nat(r, r.randint(1, max(1, mn - 1))) if mn > 1 and j % 3 else r.choice([0, 1, 3])) or 3
        d = gen.nat(r, r.randint(1, max(1, mn - 1)), r.choice(['rand', 'ones', 'special'])) if j % 2 else r.randint(0, 3)
        b = r.choice([m - d, top - d, top + d, m + d, (m - d) * r.choice([1, 1 << 64, 3])]) * (-1 if j % 4 < 3 else 1)
        e = 1 if j % 8 else 2
        cmds = ['z Z1 %s' % hx(b), 'z Z2 %s' % hx(e), 'z Z3 %s' % hx(m), 'c mpz_powm Z0 Z1 Z2 Z3', 'c mpz_powm_ui Z4 Z1 #%d Z3' % e, 'c mpz_powm Z1 Z1 Z2 Z3']
        def check(rep, b=b, e=e, m=m):
            out = []; want = pow(b, e, m)
            for idx, fn in ((3, 'mpz_powm'), (4, 'mpz_powm_ui'), (5, 'mpz_powm:r=b')):
                v, _ = split_reply(rep[idx])
                if I(v[0]) != want: out.append(('%s:wrong:e1' % fn, 'b=%s e=%d m=%s got=%s want=%s' % (hx(b)[:60], e, hx(m)[:60], v[0][:60], hx(want)[:60])))
            return out
        return Case(cmds, check, 3, ('e1', mn, gen.nlimbs(b), gen.nlimbs(pow(b, e, m)), b < 0, e), trivial=(m == 1))
    if kind in ('powm', 'thin'):
        if kind == 'powm':
            _, mn, mc, ec, bc, mneg, _s = spec
            m = make_mod(r, mn, mc); e = make_exp(r, ec); b = make_base(r, m, bc)
            if mn > 100: e = e if e.bit_length() < 300 else e >> (e.bit_length() - 200)
        else:
            _, mn, _s = spec; mc, ec, bc, mneg = 'thin', 'small', 'pm', 0
            m = gen.nat(r, mn, r.choice(['ones', 'topmax', 'rand', 'top1'])) | 1
            b = r.choice([1, -1, 2, -2, m - 1, m - 2, m + 1]); e = r.choice([1, 2, 3, 63, 64, 65, 64 * mn - 1, 64 * mn, 64 * mn + 1])
        if mneg: m = -m
        eu = e if e < B else None
        cmds = ['z Z1 %s' % hx(b), 'z Z2 %s' % hx(e), 'z Z3 %s' % hx(m), 'c mpz_powm Z0 Z1 Z2 Z3']
        cmds.append('c mpz_powm_ui Z4 Z1 #%d Z3' % eu if eu is not None else 'ping')
        # aliased destination: result into the modulus / the base variable
        cmds += ['z Z5 %s' % hx(m), 'c mpz_powm Z5 Z1 Z2 Z5', 'z Z6 %s' % hx(b), 'c mpz_powm Z6 Z6 Z2 Z3']
        def check(rep, b=b, e=e, m=m, eu=eu, mc=mc):
            out = []; want = pow(b, e, abs(m))
            for idx, fn in ((3, 'mpz_powm'), (4, 'mpz_powm_ui'), (6, 'mpz_powm:r=m'), (8, 'mpz_powm:r=b')):
                if idx == 4 and eu is None: continue
                v, _ = split_reply(rep[idx])
                if I(v[0]) != want: out.append(('%s:wrong:%s' % (fn, mc), 'b=%s e=%s m=%s got=%s want=%s' % (hx(b)[:50], hx(e)[:50], hx(m)[:50], v[0][:50], hx(want)[:50])))
            return out
        v2 = (abs(m) & -abs(m)).bit_length() - 1
        return Case(cmds, check, 4 if eu is not None else 3, ('powm', mc, szb(gen.nlimbs(m)), ec, bc, mneg, min(v2, 130), min(e.bit_length(), 80) if e.bit_length() < 80 else e.bit_length() // 64 + 80),
                    trivial=(e == 0 or abs(m) == 1))
    if kind == 'negexp':
        _, mn, mc, ec, _s = spec
        m = make_mod(r, mn, mc)
        if abs(m) <= 1: m = 3
        for _ in range(50):
            b = gen.val(r, mn + 1)
            if math.gcd(b, m) == 1: break
        else: b = 1
        e = -make_exp(r, ec)
        if e == 0: e = -1
        cmds = ['z Z1 %s' % hx(b), 'z Z2 %s' % hx(e), 'z Z3 %s' % hx(m), 'c mpz_powm Z0 Z1 Z2 Z3']
        def check(rep, b=b, e=e, m=m):
            v, _ = split_reply(rep[3])
            if I(v[0]) != pow(b, e, abs(m)): return [('mpz_powm:negexp-wrong', 'b=%s e=%s m=%s got=%s' % (hx(b)[:50], hx(e)[:50], hx(m)[:50], v[0][:50]))]
        return Case(cmds, check, 1, ('negexp', mc, mn, ec))
    if kind == 'pow_ui':
        _, fn, bc, _s = spec
        ui = fn == 'mpz_ui_pow_ui'
        if bc == 'small': b = r.choice([0, 1, -1, 2, -2, 3, 10])
        elif bc == 'pow2': b = (1 << r.randint(1, 63)) * r.choice([1, -1])
        elif bc == 'B-1': b = r.choice([M, -M, M - 1, (1 << 32) - 1, 1 << 63])
        elif bc == 'multi': b = gen.signed(r, r.randint(2, 5))
        else: b = gen.val(r, 2)
        if ui: b = abs(b) & M
        e = r.choice(list(range(0, 71)) + [100, 127, 128, 129, 255, 256, 1000])
        if abs(b) > 3 and e * max(abs(b).bit_length(), 1) > 400000: e = 400000 // abs(b).bit_length()
        if abs(b) <= 2 and r.random() < 0.2: e = r.choice([1 << 16, (1 << 20) + 1, 1 << 32 if abs(b) < 2 else 70000, M if abs(b) < 2 else 99999])
        cmds = ['c mpz_ui_pow_ui Z0 #%d #%d' % (b, e)] if ui else ['z Z1 %s' % hx(b), 'c mpz_pow_ui Z0 Z1 #%d' % e, 'c mpz_pow_ui Z1 Z1 #%d' % e]
        def check(rep, b=b, e=e, ui=ui, fn=fn):
            want = b ** e if abs(b) > 1 else (1 if e == 0 else (b if abs(b) == 1 and e % 2 else (1 if abs(b) == 1 else 0)))
            out = []
            for idx in ([0] if ui else [1, 2]):
                v, _ = split_reply(rep[idx])
                if I(v[0]) != want: out.append(('%s:wrong' % fn, 'b=%s e=%d got=%s' % (hx(b), e, v[0][:60])))
            return out
        return Case(cmds, check, 1 if ui else 2, (fn, bc, min(e, 72), b if abs(b) < 4 else 9), trivial=(e == 0))
    raise ValueError(kind)
