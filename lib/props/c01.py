"""C01 multiplication is exact in every regime."""
import random, itertools
from runner import Case
from sweeputil import sweep_case
from rpc import hx, I, split_reply
import gen

PID = 'C01'
LEVEL = 'exploration'
VARIANTS = {'quick': ['asan', 'plain'], 'thorough': ['asan', 'plain', 'asan-tdbg']}
RULE = ('[also: matrix-Fourier FFT sizes (product > 65200 limbs) with single-bit / 2^k+-1 operands, MFA and truncated FFT variants required; the same limb vector as both sources with different lengths in every regime] enumerated (un,vn) grid 1..40, every shape on both sides of each arm boundary of the mpn_mul/mul_n/sqr '
        'dispatch computed from the variant\'s own gmp-mparam.h, chunked-basecase shapes, FFT sizes, _1 kernels, mpz '
        'sign/alias/shrink combinations x hostile data classes (all-ones, runs, single bit, special limbs, equal operands), '
        'plus a seeded random part; judged against Python big-int products. distinct = (function, dispatch arm, size '
        'bucket, data classes, alias pattern); trivial = an operand 0/1 limb value 0 or 1')
ASSUMPTIONS = ['Python int arithmetic is exact', 'driver hex transport (own code) is correct: self-checked by round trip',
               'sizes above the tier cap are not explored']

CLS = ['rand', 'ones', 'runs', 'special', 'bit', 'lowzero', 'top1', 'sparse']

def arm(un, vn, th):
    """which arm of mpn_mul the shape selects (steering only; never a verdict)"""
    K, T3, T4, T8, F = th['MUL_KARATSUBA_THRESHOLD'], th['MUL_TOOM3_THRESHOLD'], th['MUL_TOOM4_THRESHOLD'], th['MUL_TOOM8H_THRESHOLD'], th['MUL_FFT_FULL_THRESHOLD']
    if un == vn: return 'mul_n'
    if vn < K: return 'basecase' if un <= 500 else 'basecase-chunked'
    if un + vn >= 2 * F and 3 * vn >= F: return 'fft'
    k = (un + 3) // 4
    if un + vn >= 2 * T8 and vn >= 86 and 4 * un <= 13 * vn: return 'toom8h'
    if un + vn >= 2 * T4:
        if vn > 3 * k: return 'toom4'
        l = (un + 4) // 5
        if (((vn > 9 * k // 4) and (un + vn <= 6 * T4)) or ((vn > 2 * l) and (un + vn > 6 * T4))) and vn <= 3 * l: return 'toom53'
    if un + vn >= 2 * T3 and vn > k:
        if vn < 2 * k: return 'toom42'
        l = (un + 2) // 3
        return 'toom3' if vn > 2 * l else 'toom32'
    return 'mul_n+pieces'

def arm_n(n, th, sqr=False):
    p = 'SQR' if sqr else 'MUL'
    K = th[p + '_KARATSUBA_THRESHOLD']; T3 = th[p + '_TOOM3_THRESHOLD']; T4 = th[p + '_TOOM4_THRESHOLD']
    T8 = th.get('SQR_TOOM8_THRESHOLD' if sqr else 'MUL_TOOM8H_THRESHOLD'); F = th[p + '_FFT_FULL_THRESHOLD']
    if n < K: return 'basecase'
    if n < T3: return 'kara'
    if n < T4: return 'toom3'
    if n < T8: return 'toom4'
    if n < F: return 'toom8'
    return 'fft'

def boundary_shapes(th, smax, dense):
    """(un,vn) on both sides of every arm change, found by scanning vn for chosen sums s=un+vn"""
    K, T3, T4, T8, F = th['MUL_KARATSUBA_THRESHOLD'], th['MUL_TOOM3_THRESHOLD'], th['MUL_TOOM4_THRESHOLD'], th['MUL_TOOM8H_THRESHOLD'], th['MUL_FFT_FULL_THRESHOLD']
    sums = set()
    for t in (2 * K, 2 * T3, 2 * T4, 6 * T4, 2 * T8, 2 * F, 172, 86 * 4):
        for d in (-2, -1, 0, 1, 2): sums.add(t + d)
    x = 2 * K
    while x < smax:
        sums.add(int(x)); x = x * (1.12 if dense else 1.35) + 1
    out = set()
    for s in sorted(sums):
        if s < 3 or s > smax: continue
        prev = None
        for vn in range(1, s // 2 + 1):
            un = s - vn
            a = arm(un, vn, th)
            if prev is not None and a != prev:
                for dv in (-1, 0):
                    v = vn + dv
                    if v >= 1: out.add((s - v, v))
                # also the neighbours with the same un (s differs by one)
                out.add((un, vn - 1)) if vn > 1 else None
                out.add((un + 1, vn))
            prev = a
    return sorted(out)

def fft_sizes(th, cap, tier):
    F = th['MUL_FFT_FULL_THRESHOLD']
    out = []
    n = F
    while 2 * n <= cap * 2 and n <= cap:
        out.append((n, n)); out.append((n + 1, n)); out.append((2 * n - n // 3, n // 3 + F // 3 + 1))
        n = int(n * (1.19 if tier == 'thorough' else 1.5)) + 3
    return [(a, b) for a, b in out if a >= b and a + b >= 2 * F and 3 * b >= F and a <= cap]

def enumerated(th, tier):
    q = tier == 'quick'
    S = []
    # (1) full small grid
    pairs = [('rand', 'rand'), ('ones', 'ones'), ('runs', 'special'), ('bit', 'ones')]
    for un in range(1, 41):
        for vn in range(1, un + 1):
            for cu, cv in (pairs[:2] if q and un > 24 else pairs):
                S.append(('mpn_mul', un, vn, cu, cv))
    # (2) boundary shapes
    smax = 2 * th['MUL_TOOM8H_THRESHOLD'] + 500 if q else 2 * th['MUL_FFT_FULL_THRESHOLD'] + 300
    for un, vn in boundary_shapes(th, smax, not q):
        for cu, cv in ([('rand', 'runs'), ('ones', 'ones')] if q else [('rand', 'rand'), ('ones', 'ones'), ('runs', 'special'), ('ones', 'bit'), ('lowzero', 'top1')]):
            S.append(('mpn_mul', un, vn, cu, cv))
    # (3) chunked basecase with maximal carries
    K = th['MUL_KARATSUBA_THRESHOLD']
    for un in [499, 500, 501, 502, 503, 999, 1000, 1001, 1002, 1003, 1499, 1500, 1501, 1502, 1503, 2500]:
        for vn in range(1, K):
            if q and (vn % 3 and vn < K - 2): continue
            S.append(('mpn_mul', un, vn, 'ones', 'ones'))
            if not q: S.append(('mpn_mul', un, vn, 'runs', 'ones')); S.append(('mpn_mul', un, vn, 'rand', 'rand'))
    # (4) mul_n / sqr
    ths = [th[k] for k in th if k.startswith(('MUL_', 'SQR_')) and 'FFT_FULL' not in k and isinstance(th[k], int) and 2 < th[k] < 5000]
    ns = set(range(1, 130 if q else 401)) | set(gen.around(ths, 1)) | set(gen.ladder(130, 2 * th['SQR_FFT_FULL_THRESHOLD'] if not q else 2400, 1.25 if q else 1.1))
    ns |= set(gen.around([th['SQR_FFT_FULL_THRESHOLD'], th['MUL_FFT_FULL_THRESHOLD']], 1))
    for n in sorted(ns):
        for c in (['rand', 'ones'] if q else ['rand', 'ones', 'runs', 'bit']):
            S.append(('mpn_mul_n', n, c, 'rand' if c == 'rand' else c)); S.append(('mpn_sqr', n, c))
        S.append(('mpn_mul_same', n, 'runs'))
    # (5) FFT
    cap = 12000 if q else 140000
    fs = fft_sizes(th, cap, tier)
    for un, vn in fs:
        big = un + vn > 30000
        for cu, cv in ([('ones', 'ones')] if big else [('rand', 'rand'), ('ones', 'ones'), ('ones', 'bit')]):
            S.append(('mpn_mul', un, vn, cu, cv)); S.append(('fft_main', un, vn, cu, cv))
    # (5b) the matrix-Fourier (MFA) variant of the FFT only starts at products of about 65200 limbs; its pointwise multiplications are the only place
    # where mpn_mulmod_Bexpp1 sees coefficients equal to -1 mod B^n+1, which needs single-bit / 2^k+-1 operands, never random ones (A87)
    for i in range(10 if q else 60):
        un = 33000 + 977 * i + (i * i * 131) % 9000; vn = 32700 + 613 * i
        for cu, cv in ([('bit', 'rand'), ('bit', 'ones'), ('bit', 'bit')] if q else [('bit', 'rand'), ('bit', 'ones'), ('bit', 'bit'), ('bitpm', 'rand'), ('bitpm', 'bitpm')]):
            S.append(('mpn_mul', max(un, vn), min(un, vn), cu, cv))
        S.append(('mpn_sqr', un, 'bit'))
        S.append(('mpn_mul', 2 * un, vn // 2 + 1000, 'bit', 'runs'))
    # (5c) the same limb vector as both operands with different lengths (mpn_mul (p, u, un, u, vn), vn < un: u times its own low part): the sources
    # may overlap freely, and 'same pointer' must not be taken for 'squaring' in any regime (F19)
    F = th['MUL_FFT_FULL_THRESHOLD']
    for un in sorted(set([2, 3, 5, 10, 30, 31, 64, 100, 200, 400, 700, 1200, 2500, F - 1, F, F + 1, F + 100, 2 * F, 3 * F, 6000, 8000] + ([] if q else gen.ladder(40, 3 * F, 1.3)))):
        for vn in sorted({1, 2, un // 3, un // 2, un - 1, min(un - 1, F), min(un - 1, F + 1)}):
            if 1 <= vn < un: S.append(('mpn_mul_sameptr', un, vn, 'rand')); S.append(('mpn_mul_sameptr', un, vn, 'ones'))
    for un, vn in [(40000, 30000), (36000, 35999)] + ([] if q else [(70000, 33000), (100000, 4000)]):
        S.append(('mpn_mul_sameptr', un, vn, 'rand'))
    # direct fft entry at smaller sizes: every shape it accepts from its own minimum
    for n1 in ([40, 64, 100, 130, 200, 257, 400, 700, 1025, 1500, 2100, 3000] if q else gen.ladder(34, 3400, 1.12)):
        for n2 in sorted({n1, max(1, n1 // 2), max(1, n1 // 5) + 1, n1 - 1}):
            if n2 < 1 or n2 > n1: continue
            for cu, cv in [('ones', 'ones'), ('rand', 'runs')] + ([] if q else [('ones', 'bit'), ('special', 'special')]):
                S.append(('fft_main', n1, n2, cu, cv))
    # (7) _1 kernels
    for n in list(range(1, 41 if q else 131)) + [255, 256, 257, 511, 512, 513]:
        for c in ['rand', 'ones', 'runs']:
            for v in (['ones', 'rand'] if q else ['ones', 'rand', 'one', 'half', 'zero']):
                S.append(('mul_1', n, c, v))
    return S

def pow2_specs(rng, n):
    # x = 2^a (+ a small low part), y = 2^b, w shorter than x: the high part of x*y is an exact multiple of B^k, so a subtraction of absolute
    # values borrows through zero limbs (A73: --enable-assert's checked MPN_DECR_U with too short a size aborts there)
    for i in range(n):
        for fn in ('mpz_addmul_ui', 'mpz_submul_ui', 'mpz_addmul', 'mpz_submul'):
            yield ('aorsmul_p2', fn, rng.getrandbits(48))

def c14_priority(rng, tier):
    return pow2_specs(rng, 6)

def specs(rng, tier, wid, nw, env):
    if wid == 0:
        for sp in pow2_specs(rng, 40 if tier == 'quick' else 400): yield sp
    th = env.th
    E = enumerated(th, tier)
    # big cases first so that the slowest work is spread evenly
    for i, s in enumerate(E):
        if i % nw == wid:
            yield s + (rng.getrandbits(48),)
    # in-driver kernel sweeps against the limb reference (fenced operands): mul_1/addmul_1/submul_1, mul/sqr/mullow basecases, mul_n/sqr dispatch
    k = 0
    for grp, top in (('mul1', 40 if tier == 'quick' else 300), ('kern2', 40 if tier == 'quick' else 400)):
        for lo in range(1, top + 1, 4):
            k += 1
            if k % nw == wid: yield ('sweep', grp, lo, min(lo + 3, top), rng.getrandbits(40))
    # (6) mpz level + seeded random part
    n = (12000 if tier == 'quick' else 600000)
    for i in range(n):
        c = rng.random()
        if c < 0.45:
            yield ('mpz_mul', rng.choice([0, 1, 1, 2, 3, 5, 17, 40, 120]) if rng.random() < 0.8 else rng.randint(0, 600),
                   rng.choice([0, 1, 1, 2, 3, 5, 17, 40, 120]) if rng.random() < 0.8 else rng.randint(0, 600),
                   rng.choice(CLS), rng.choice(CLS), rng.randint(0, 3), rng.choice(['w', 'w=u', 'w=v', 'u=v', 'w=u=v']), rng.random() < 0.5, rng.getrandbits(48))
        elif c < 0.6:
            yield ('mpz_mul_i', rng.choice(['ui', 'si']), rng.randint(0, 30), rng.choice(CLS), rng.random() < 0.5, rng.random() < 0.5, rng.getrandbits(48))
        elif c < 0.85:
            yield ('aorsmul', rng.choice(['mpz_addmul', 'mpz_submul']), rng.randint(0, 24), rng.randint(0, 12), rng.randint(0, 12),
                   rng.choice(['rand', 'cancel', 'shorten', 'grow']), rng.randint(0, 7), rng.choice(['w', 'w=u', 'w=v', 'u=v', 'w=u=v']), rng.getrandbits(48))
        elif c < 0.95:
            yield ('aorsmul_ui', rng.choice(['mpz_addmul_ui', 'mpz_submul_ui']), rng.randint(0, 24), rng.randint(0, 12),
                   rng.choice(['rand', 'cancel', 'grow']), rng.randint(0, 3), rng.random() < 0.3, rng.getrandbits(48))
        else:
            un = rng.randint(1, 900); vn = rng.randint(1, un)
            yield ('mpn_mul', un, vn, rng.choice(CLS), rng.choice(CLS), rng.getrandbits(48))

def szb(n):
    return n if n < 48 else 48 + n.bit_length() * 4 + ((n >> (n.bit_length() - 3)) & 3)

UIS = [0, 1, 2, 3, (1 << 63) - 1, 1 << 63, (1 << 63) + 1, gen.M, gen.M - 1, 1 << 32, (1 << 32) - 1]
SIS = [0, 1, -1, 2, -2, (1 << 63) - 1, -(1 << 63), -(1 << 63) + 1, 1 << 32, -(1 << 32)]

def build(spec, env):
    kind = spec[0]; r = random.Random(spec[-1]); th = env.th
    B = 1 << 64
    if kind == 'sweep': return sweep_case(spec[1], spec[2], spec[3], spec[4], 'C01')
    if kind in ('mpn_mul', 'fft_main'):
        _, un, vn, cu, cv, _s = spec
        a = gen.nat(r, un, cu); b = gen.nat(r, vn, cv)
        if kind == 'fft_main' and ((64 * un - 1) // 28 + (64 * vn - 1) // 28 + 1 <= 128 or vn * 8 < un): return None
        fn = 'mpn_mul' if kind == 'mpn_mul' else 'mpn_mul_fft_main'
        cmds = ['l 0 %d %s' % (un, hx(a)), 'l 1 %d %s' % (vn, hx(b)), 'c %s L2:%d L0 #%d L1 #%d' % (fn, un + vn, un, vn)]
        def check(rep, a=a, b=b, un=un, vn=vn, fn=fn):
            v, _ = split_reply(rep[2]); p = a * b
            if fn == 'mpn_mul':
                got = I(v[1].split('=')[1])
                if got != p: return [('%s:wrong-product:%s' % (fn, arm(un, vn, th)), 'un=%d vn=%d' % (un, vn))]
                if int(v[0]) != p >> (64 * (un + vn - 1)): return [('%s:wrong-return' % fn, 'un=%d vn=%d ret=%s' % (un, vn, v[0]))]
            else:
                got = I(v[0].split('=')[1])
                if got != p: return [('%s:wrong-product' % fn, 'n1=%d n2=%d' % (un, vn))]
        return Case(cmds, check, 1, (fn, arm(un, vn, th), szb(un), szb(vn) if un < 48 else (vn * 16 // un), cu, cv), trivial=(a <= 1 or b <= 1))
    if kind == 'mpn_mul_sameptr':
        _, un, vn, cls = spec[:4]
        a = gen.nat(r, un, cls); b = a & ((1 << (64 * vn)) - 1)
        cmds = ['l 0 %d %s' % (un, hx(a)), 'ping', 'c mpn_mul L2:%d L0 #%d L0 #%d' % (un + vn, un, vn)]
        def check(rep, a=a, b=b, un=un, vn=vn):
            v, _ = split_reply(rep[2])
            got = I(v[-1].split('=')[1])
            if got != a * b: return [('mpn_mul:wrong-product:same-pointer-different-lengths:%s' % arm(un, vn, th), 'un=%d vn=%d%s' % (un, vn, ' (got u*u truncated?)' if got == (a * a) % (1 << (64 * (un + vn))) else ''))]
        return Case(cmds, check, 1, ('mpn_mul_sameptr', arm(un, vn, th), szb(un), vn * 16 // un, cls), trivial=(b <= 1))
    if kind in ('mpn_mul_n', 'mpn_sqr', 'mpn_mul_same'):
        n = spec[1]; a = gen.nat(r, n, spec[2])
        if kind == 'mpn_mul_n':
            b = gen.nat(r, n, spec[3])
            cmds = ['l 0 %d %s' % (n, hx(a)), 'l 1 %d %s' % (n, hx(b)), 'c mpn_mul_n L2:%d L0 L1 #%d' % (2 * n, n)]
        elif kind == 'mpn_sqr':
            b = a; cmds = ['l 0 %d %s' % (n, hx(a)), 'ping', 'c mpn_sqr L2:%d L0 #%d' % (2 * n, n)]
        else:
            b = a; cmds = ['l 0 %d %s' % (n, hx(a)), 'ping', 'c mpn_mul L2:%d L0 #%d L0 #%d' % (2 * n, n, n)]
        def check(rep, a=a, b=b, n=n, kind=kind):
            v, _ = split_reply(rep[2])
            got = I(v[-1].split('=')[1])
            if got != a * b: return [('%s:wrong-product:%s' % (kind, arm_n(n, th, kind != 'mpn_mul_n')), 'n=%d' % n)]
        return Case(cmds, check, 1, (kind, arm_n(n, th, kind != 'mpn_mul_n'), szb(n), spec[2]), trivial=(a <= 1))
    if kind == 'mul_1':
        _, n, c, vc, _s = spec
        a = gen.nat(r, n, c); w = gen.nat(r, n, r.choice(['rand', 'ones', 'runs']))
        v = {'ones': gen.M, 'rand': r.getrandbits(64), 'one': 1, 'half': 1 << 63, 'zero': 0}[vc]
        cmds = ['l 0 %d %s' % (n, hx(a)), 'c mpn_mul_1 L1:%d L0 #%d #%d' % (n, n, v)]
        cmds += ['l 2 %d %s' % (n, hx(w)), 'c mpn_addmul_1 L2 L0 #%d #%d' % (n, v), 'l 3 %d %s' % (n, hx(w)), 'c mpn_submul_1 L3 L0 #%d #%d' % (n, v)]
        # in place (rp == s1p is allowed for mul_1)
        cmds += ['l 4 %d %s' % (n, hx(a)), 'c mpn_mul_1 L4 L4 #%d #%d' % (n, v)]
        def check(rep, a=a, w=w, v=v, n=n):
            out = []; Bn = 1 << (64 * n)
            for idx, fn, exp in ((1, 'mpn_mul_1', a * v), (3, 'mpn_addmul_1', w + a * v), (5, 'mpn_submul_1', None), (7, 'mpn_mul_1-inplace', a * v)):
                vals, _ = split_reply(rep[idx]); ret = int(vals[0]); got = I(vals[1].split('=')[1])
                if exp is None:
                    d = w - a * v; bor = (-(d >> (64 * n))) if d < 0 else 0
                    if got != d % Bn or ret != bor: out.append((fn + ':wrong', 'n=%d' % n))
                elif got != exp % Bn or ret != exp >> (64 * n): out.append((fn + ':wrong', 'n=%d' % n))
            return out
        return Case(cmds, check, 4, ('mul_1', szb(n), c, vc), trivial=(v <= 1))
    if kind == 'mpz_mul':
        _, un, vn, cu, cv, sg, alias, shrink, _s = spec
        a = gen.nat(r, un, cu) * (-1 if sg & 1 else 1); b = gen.nat(r, vn, cv) * (-1 if sg & 2 else 1)
        if alias in ('u=v', 'w=u=v'): b = a
        W, U, V = {'w': ('Z0', 'Z1', 'Z2'), 'w=u': ('Z1', 'Z1', 'Z2'), 'w=v': ('Z2', 'Z1', 'Z2'), 'u=v': ('Z0', 'Z1', 'Z1'), 'w=u=v': ('Z1', 'Z1', 'Z1')}[alias]
        cmds = ['z Z1 %s' % hx(a), 'z Z2 %s' % hx(b), 'z Z0 %s' % hx(r.getrandbits(r.choice([0, 64, 700])))]
        cmds.append('shrink %s' % W if shrink else 'ping')
        cmds.append('c mpz_mul %s %s %s' % (W, U, V))
        def check(rep, a=a, b=b, alias=alias):
            v, _ = split_reply(rep[4])
            if I(v[0]) != a * b: return [('mpz_mul:wrong-product:%s' % alias, 'un=%d vn=%d' % (gen.nlimbs(a), gen.nlimbs(b)))]
        return Case(cmds, check, 1, ('mpz_mul', szb(un), szb(vn), cu, cv, sg, alias, shrink), trivial=(abs(a) <= 1 or abs(b) <= 1))
    if kind == 'mpz_mul_i':
        _, t, un, cu, neg, alias, _s = spec
        a = gen.nat(r, un, cu) * (-1 if neg else 1)
        m = r.choice(UIS) if t == 'ui' else r.choice(SIS)
        if r.random() < 0.3: m = r.getrandbits(64) if t == 'ui' else r.getrandbits(63) * r.choice([1, -1])
        W = 'Z1' if alias else 'Z0'
        cmds = ['z Z1 %s' % hx(a), 'c mpz_mul_%s %s Z1 #%d' % (t, W, m)]
        def check(rep, a=a, m=m, t=t):
            v, _ = split_reply(rep[1])
            if I(v[0]) != a * m: return [('mpz_mul_%s:wrong-product' % t, 'a=%s m=%d' % (hx(a)[:40], m))]
        return Case(cmds, check, 1, ('mpz_mul_' + t, szb(un), cu, neg, alias, m if abs(m) < 4 else (m >= (1 << 63)) + 10), trivial=(abs(a) <= 1 or abs(m) <= 1))
    if kind == 'aorsmul':
        _, fn, wn, un, vn, mode, sg, alias, _s = spec
        a = gen.signed(r, un, None, 0.0) * (-1 if sg & 1 else 1); b = gen.signed(r, vn, None, 0.0) * (-1 if sg & 2 else 1)
        if alias in ('u=v', 'w=u=v'): b = a
        sign = 1 if fn == 'mpz_addmul' else -1
        if mode == 'rand': w = gen.signed(r, wn, None, 0.0) * (-1 if sg & 4 else 1)
        elif mode == 'cancel': w = -sign * a * b
        elif mode == 'shorten': w = -sign * a * b + r.choice([1, -1, 3, r.getrandbits(30)])
        else: w = sign * (((1 << (64 * gen.nlimbs(a * b))) - 1) - abs(a * b)) * (1 if a * b >= 0 else -1) + sign * (1 if a * b >= 0 else -1) * r.choice([0, 1])
        if alias in ('w=u', 'w=u=v'): w = a
        if alias == 'w=v': w = b
        W, U, V = {'w': ('Z0', 'Z1', 'Z2'), 'w=u': ('Z1', 'Z1', 'Z2'), 'w=v': ('Z2', 'Z1', 'Z2'), 'u=v': ('Z0', 'Z1', 'Z1'), 'w=u=v': ('Z1', 'Z1', 'Z1')}[alias]
        cmds = ['z Z0 %s' % hx(w), 'z Z1 %s' % hx(a), 'z Z2 %s' % hx(b), 'shrink %s' % W, 'c %s %s %s %s' % (fn, W, U, V)]
        def check(rep, w=w, a=a, b=b, sign=sign, fn=fn, alias=alias, mode=mode):
            v, _ = split_reply(rep[4])
            if I(v[0]) != w + sign * a * b: return [('%s:wrong:%s' % (fn, alias), 'mode=%s w=%s a=%s b=%s got=%s' % (mode, hx(w)[:60], hx(a)[:60], hx(b)[:60], v[0][:60]))]
        return Case(cmds, check, 1, (fn, szb(wn), szb(un), szb(vn), mode, sg, alias), trivial=(a == 0 or b == 0))
    if kind == 'aorsmul_p2':
        fn = spec[1]; ui = fn.endswith('_ui'); sign = 1 if 'addmul' in fn else -1
        xs = r.randint(2, 6); j = r.choice([0, 1, 32, 63]); x = (1 << (64 * (xs - 1) + j)) + r.choice([0, 0, 0, 1, r.getrandbits(40)])
        y = 1 << r.choice([64 - j if j else 63, 63, 32, 1, 64 - j if j else 1])
        if y >= 1 << 64: y = 1 << 63
        w = r.choice([1, 5, r.getrandbits(64) | 1, gen.nat(r, r.randint(1, xs - 1))])
        x *= r.choice([1, -1]); w *= r.choice([1, -1]); yv = y if ui else y * r.choice([1, -1])
        if ui: cmds = ['z Z0 %s' % hx(w), 'z Z1 %s' % hx(x), 'shrink Z0', 'c %s Z0 Z1 #%d' % (fn, y)]
        else: cmds = ['z Z0 %s' % hx(w), 'z Z1 %s' % hx(x), 'z Z2 %s' % hx(yv), 'shrink Z0', 'c %s Z0 Z1 Z2' % fn]
        def check(rep, w=w, x=x, yv=yv, sign=sign, fn=fn):
            v, _ = split_reply(rep[len(cmds) - 1])
            if I(v[0]) != w + sign * x * yv: return [('%s:wrong' % fn, 'pow2 shape w=%s x=%s y=%s got=%s' % (hx(w)[:40], hx(x)[:60], hx(yv), v[0][:60]))]
        return Case(cmds, check, 1, (fn, 'pow2', xs, j, w < 0, x < 0))
    if kind == 'aorsmul_ui':
        _, fn, wn, un, mode, sg, alias, _s = spec
        a = gen.signed(r, un, None, 0.0) * (-1 if sg & 1 else 1)
        m = r.choice(UIS) if r.random() < 0.5 else r.getrandbits(64)
        sign = 1 if fn == 'mpz_addmul_ui' else -1
        if mode == 'rand': w = gen.signed(r, wn, None, 0.0) * (-1 if sg & 2 else 1)
        elif mode == 'cancel': w = -sign * a * m + r.choice([0, 0, 1, -1])
        else: w = sign * ((1 << (64 * gen.nlimbs(a * m))) - 1 - abs(a * m)) * (1 if a >= 0 else -1) + sign * (1 if a >= 0 else -1) * r.choice([0, 1])
        if alias: w = a
        W = 'Z1' if alias else 'Z0'
        cmds = ['z Z0 %s' % hx(w), 'z Z1 %s' % hx(a), 'shrink %s' % W, 'c %s %s Z1 #%d' % (fn, W, m)]
        def check(rep, w=w, a=a, m=m, sign=sign, fn=fn):
            v, _ = split_reply(rep[3])
            if I(v[0]) != w + sign * a * m: return [('%s:wrong' % fn, 'w=%s a=%s m=%d got=%s' % (hx(w)[:60], hx(a)[:60], m, v[0][:60]))]
        return Case(cmds, check, 1, (fn, szb(wn), szb(un), mode, sg, alias), trivial=(a == 0 or m == 0))
    raise ValueError(kind)

HOOKS = {1: 'mul_n', 2: 'sqr', 3: 'basecase', 4: 'basecase-chunked', 5: 'fft', 6: 'toom8h', 7: 'toom4', 8: 'toom53', 9: 'toom42', 10: 'toom3', 11: 'toom32', 12: 'mul_n+pieces'}
def post(tier, agg, cov):
    hits = agg.get('hits', {})
    cov['regimes_observed'] = {HOOKS[k]: hits.get(k, 0) for k in HOOKS}
    cov['fft_parameters_observed'] = sorted({(e[0], e[1], e[2]) for e in agg.get('evts', []) if e[0] in (20, 21)})
    missing = [HOOKS[k] for k in HOOKS if not hits.get(k)]
    if not any(e[0] == 21 for e in agg.get('evts', [])): missing.append('fft matrix-Fourier (MFA) variant')
    if not any(e[0] == 20 for e in agg.get('evts', [])): missing.append('fft truncated variant')
    if missing: return {'inconclusive': 'mpn_mul dispatch arms never reached (hook counters zero): %s' % missing}

if __name__ == '__main__':
    import runner
    runner.main('c01')
