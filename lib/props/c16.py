"""C16 factorial, binomial, Fibonacci/Lucas, remove, primality."""
import random, math
from runner import Case
from rpc import hx, I, split_reply
import gen, models
from gen import B, M

PID = 'C16'
LEVEL = 'exploration'
VARIANTS = {'quick': ['asan', 'plain'], 'thorough': ['asan', 'plain', 'asan-tdbg']}
RULE = ('fac/2fac/mfac/primorial: n over 0..3000 (sampled in quick), around FAC_DSC_THRESHOLD and a ladder to 60k (2M thorough); the block-sieve region n = 1.18M..2.5M (9M thorough) for primorial, fac, 2fac and bin_uiui, judged by product trees and Legendre exponents; mfac with '
        'm in 1..n+1; bin_uiui: triangle n<=600 (sampled in quick), boundary points of each algorithm region in (n,k), k in {0,1,n-1,n,n/2}, n near '
        '2^32 and 2^64-1 with small k; bin_ui with negative and multi-limb n; fib/fib2/lucnum/lucnum2 n<=5000 and ladder; remove with f=2, small '
        'odd, multi-limb; primality: n<2^16 (sampled in quick), prime squares, Carmichael (Chernick), strong pseudoprimes to {2},{2,3},{2,3,5},'
        '{2,3,5,7} and the first nine primes, p*(2p-1), neighbourhoods of 2^31,2^32,2^53,2^64,10^6; above 2^64 only certified numbers (Mersenne '
        'primes, Pocklington-built primes with witness, composites from their factors). Oracles: math.factorial/comb, fast-doubling Fibonacci, '
        'deterministic 13-base Miller-Rabin below psi_13 = 3.3e24. distinct = (group, argument bucket / number class); trivial = n<2')
ASSUMPTIONS = ['Miller-Rabin with the first 13 prime bases is deterministic below psi_13 = 3317044064679887385961981 (cross-checked against sympy at self-test, incl. psi_12)',
               'probab_prime_p/probable_prime_p composite verdicts rely on the library\'s locally seeded generator: deterministic per run']

PSP = [2047, 3277, 4033, 4681, 8321, 1373653, 1530787, 25326001, 3215031751, 2152302898747, 3474749660383, 341550071728321,
       3825123056546413051, 318665857834031151167461, 561, 1105, 1729, 2465, 2821, 6601, 8911, 41041, 825265, 321197185, 5394826801, 232250619601,
       9746347772161, 1436697831295441, 60977817398996785]
MERS = [61, 89, 107, 127, 521, 607]

def pock_prime(r, bits):
    """certified prime of about `bits` bits by Pocklington steps from a 62-bit prime"""
    q = r.getrandbits(62) | (1 << 61) | 1
    while not models.isprime64(q): q += 2
    while q.bit_length() < bits:
        while True:
            k = r.getrandbits(max(10, min(q.bit_length() - 2, bits - q.bit_length() + 1))) + 1
            n = 2 * k * q + 1
            if any(n % p == 0 for p in models.SM): continue
            ok = False
            for a in (2, 3, 5, 7):
                if pow(a, n - 1, n) != 1: break
                if math.gcd(pow(a, (n - 1) // q, n) - 1, n) == 1: ok = True; break
            if ok: break
        q = n
    return q

def binregions(rng, q):
    pts = []
    for n in ([67, 68, 69, 70, 100, 500, 1000, 1024, 4096, 10000, 65535, 65536, 100000] if q else list(range(60, 80)) + gen.ladder(80, 300000, 1.2)):
        for k in {0, 1, 2, 3, 5, 8, 13, 20, 25, 26, 27, 30, 40, 66, 67, 68, 70, 100, n // 2, n // 2 - 1, n // 3, n - 1, n, n - 2, int(n ** 0.5), int(n ** 0.5) + 1, n // 16, n // 16 + 1}:
            if 0 <= k <= n and math.comb(n, min(k, n - k)).bit_length() < (1_500_000 if not q else 300_000): pts.append((n, k))
    # both sides of k = BIN_GOETGHELUCK_THRESHOLD and of k = n>>4 (Goetgheluck vs bdiv), of k = 25/26 (smallk) and 70/71 (smallkdc), n = 67/68 (table)
    for n in (67, 68, 69, 1999, 2000, 2001, 2002, 2003, 15984, 16000, 16015, 16016, 16017, 16031, 16032, 16033, 20000, 30000):
        for k in (2, 24, 25, 26, 27, 34, 35, 36, 69, 70, 71, 72, 999, 1000, 1001, 1002, (n >> 4) - 1, n >> 4, (n >> 4) + 1, (n >> 4) + 2, n // 2):
            if 0 <= k <= n: pts.append((n, k)); pts.append((n, n - k))
    for n in (2 ** 32 - 1, 2 ** 32, 2 ** 32 + 1, 2 ** 63, 2 ** 64 - 1, 2 ** 64 - 2, 2 ** 53 + 1):
        for k in (0, 1, 2, 3, 5, 12, 30): pts.append((n, k))
    return pts

def c14_priority(rng, tier, env):
    """cases C14 replays on every build variant: fib/fib2/lucnum/lucnum2 for every n up to 800 (their code has branches compiled only where a
    native addlsh1_n / sublsh1_n kernel exists, and the failing n are those where F[k] has just crossed a limb boundary: about 1% of all n, A98)"""
    for n in range(0, 800): yield ('fib', n, 0)

def specs(rng, tier, wid, nw, env):
    q = tier == 'quick'; th = env.th
    k = 0
    fd = th.get('FAC_DSC_THRESHOLD', 898)
    ns = (sorted(set(range(0, 130)) | set(rng.sample(range(130, 3001), 150)) | set(gen.around([fd, 2 * fd, 20, 21, 25, 26, 33, 34, 65, 66], 0)) | set(gen.ladder(3000, 60000, 1.7)))
          if q else sorted(set(range(0, 3001)) | set(gen.ladder(3000, 300000, 1.3))))
    # the block-wise prime sieve (primesieve.c) only re-sieves further blocks above n ~ 1.18 million: primorial, factorial, double factorial and the
    # Goetgheluck binomial all take their primes from it there.  Judged exactly: primorial / n! / n!! by product trees, C(n,k) by Legendre's formula.
    big = ([1179650, 1200000, 1600000, 2500001] if q else [1179650, 1200000, 1310000, 1600000, 2000001, 2500001, 4200000, 9000000])
    for n in big:
        for what in ('primorial', 'fac', '2fac', 'bin'):
            k += 1
            if k % nw == wid and not (what == 'fac' and n > (1700000 if q else 4500000)): yield ('sieve', what, n, rng.getrandbits(48))
    for n in reversed(ns):
        k += 1
        if k % nw == wid: yield ('fac', n, rng.getrandbits(48))
    tri = [(n, kk) for n in range(0, 401) for kk in range(0, n + 1)]
    if q: tri = rng.sample(tri, 1500) + [(n, kk) for n in range(0, 40) for kk in range(0, n + 1)]
    # random points inside each algorithm region of mpz_bin_uiui (Goetgheluck: k > 1000 and k > n/16; bdiv: 70 < k <= n/16; smallkdc: 26..70; smallk: <= 25)
    rpts = []
    for i in range(300 if q else 6000):
        n = rng.choice([rng.randint(2002, 6000), rng.randint(2002, 40000), rng.randint(2002, 250000)]); lo = max(1001, (n >> 4) + 1)
        if lo < n // 2: rpts.append((n, rng.choice([rng.randint(lo, n // 2), n - rng.randint(lo, n // 2)])))
    for i in range(150 if q else 3000):
        n = rng.randint(1200, 2000000); hi = n >> 4
        if hi > 71: rpts.append((n, rng.randint(71, min(hi, 3000))))
        rpts.append((rng.choice([rng.randint(68, 5000), rng.getrandbits(rng.randint(8, 64)) + 68]), rng.randint(2, 70)))
    for (n, kk) in tri + binregions(rng, q) + rpts:
        k += 1
        if k % nw == wid: yield ('bin', n, kk, 0)
    fs = sorted(set(range(0, 400 if q else 5001)) | set(gen.ladder(400, 200000 if q else 1000000, 1.5 if q else 1.25)))
    for n in reversed(fs):
        k += 1
        if k % nw == wid: yield ('fib', n, 0)
    small = list(range(0, 1 << 16)) if not q else list(range(0, 2000)) + rng.sample(range(2000, 1 << 16), 3000)
    for n in small:
        k += 1
        if k % nw == wid: yield ('prime', n, 'small', rng.getrandbits(32))
    for n in PSP + [p * p for p in models.primes_upto(2000)] + [p * (2 * p - 1) for p in models.primes_upto(3000) if models.isprime64(2 * p - 1)]:
        k += 1
        if k % nw == wid: yield ('prime', n, 'pseudo', rng.getrandbits(32))
    for c in (2 ** 31, 2 ** 32, 2 ** 53, 2 ** 64, 10 ** 6, 2 ** 63, 10 ** 9, 2 ** 48, 1000 ** 2, 1009 ** 2):
        for d in range(-64 if q else -1500, 65 if q else 1501):
            k += 1
            if k % nw == wid and c + d >= 0: yield ('prime', c + d, 'near', rng.getrandbits(32))
    N = 1500 if q else 30000
    for i in range(N):
        c = rng.random()
        if c < 0.25: yield ('prime', rng.getrandbits(rng.randint(1, 64)), 'rand', rng.getrandbits(32))
        elif c < 0.35: yield ('bigprime', rng.choice(['mers', 'pock', 'pock', 'comp2', 'comp3', 'carm', 'sq']), rng.choice([100, 128, 200, 300]), rng.getrandbits(48))
        elif c < 0.55: yield ('binz', rng.getrandbits(48))
        elif c < 0.7: yield ('mfac', rng.getrandbits(48))
        elif c < 0.85: yield ('remove', rng.getrandbits(48))
        else: yield ('nextbig', rng.choice([100, 150, 260]), rng.getrandbits(48))

def chernick(r, bits):
    k = r.getrandbits(22) + (1 << 21)
    while True:
        k += 1
        a, b, c = 6 * k + 1, 12 * k + 1, 18 * k + 1
        if a % 5 and b % 5 and c % 5 and a % 7 and b % 7 and c % 7 and all(models.isprime64(x) for x in (a, b, c)): return a * b * c

def build(spec, env):
    kind = spec[0]; r = random.Random(spec[-1])
    if kind == 'fac':
        n = spec[1]
        cmds = ['c mpz_fac_ui Z0 #%d' % n, 'c mpz_2fac_ui Z1 #%d' % n, 'c mpz_primorial_ui Z2 #%d' % n]
        def check(rep, n=n):
            out = []
            e1 = math.factorial(n)
            e2 = math.prod(range(n, 0, -2)) if n < 200000 else None
            e4 = math.prod(models.primes_upto(n))
            for idx, fn, e in ((0, 'mpz_fac_ui', e1), (1, 'mpz_2fac_ui', e2), (2, 'mpz_primorial_ui', e4)):
                if e is None: continue
                v, _ = split_reply(rep[idx])
                if I(v[0]) != e: out.append(('%s:wrong' % fn, 'n=%d' % n))
            return out
        return Case(cmds, check, 3, ('fac', n if n < 3001 else 3001 + n.bit_length()), trivial=(n < 2))
    if kind == 'sieve':
        _, what, n, _s = spec
        if what == 'bin': kk = r.choice([n // 2, n // 3, n // 16 + 5, n - n // 7]); cmd = 'c mpz_bin_uiui Z0 #%d #%d' % (n, kk)
        else: kk = 0; n = n | 1 if what == '2fac' else n; cmd = 'c mpz_%s_ui Z0 #%d' % ({'primorial': 'primorial', 'fac': 'fac', '2fac': '2fac'}[what], n)
        def check(rep, what=what, n=n, kk=kk):
            v, _ = split_reply(rep[0]); got = I(v[0])
            if what == 'primorial': e = models.prodtree(models.primes_upto(n))
            elif what == 'fac': e = math.factorial(n)
            elif what == '2fac': e = models.prodtree(range(n, 0, -2))
            else: e = models.comb_by_primes(n, kk)
            if got != e:
                fn = {'primorial': 'mpz_primorial_ui', 'fac': 'mpz_fac_ui', '2fac': 'mpz_2fac_ui', 'bin': 'mpz_bin_uiui'}[what]
                q_, r_ = divmod(got, e) if e and got >= e else (0, 1)
                return [('%s:wrong:block-sieve' % fn, 'n=%d k=%d%s' % (n, kk, ' result = expected * %d' % q_ if r_ == 0 else ''))]
        c = Case([cmd], check, 1, ('sieve', what, n.bit_length(), n >> 16)); c.timeout = 900
        return c
    if kind == 'mfac':
        n = r.choice([r.randint(0, 150), r.randint(0, 3000), r.randint(0, 30000)]); m = r.choice([1, 2, 3, r.randint(1, max(1, n + 2)), n, n + 1, max(1, n // 2)])
        m = max(1, m)
        cmds = ['c mpz_mfac_uiui Z0 #%d #%d' % (n, m)]
        def check(rep, n=n, m=m):
            v, _ = split_reply(rep[0])
            if I(v[0]) != math.prod(range(n, 0, -m)): return [('mpz_mfac_uiui:wrong', 'n=%d m=%d' % (n, m))]
        return Case(cmds, check, 1, ('mfac', min(n, 400), min(m, 40)), trivial=(n < 2))
    if kind == 'bin':
        _, n, k, _s = spec
        cmds = ['c mpz_bin_uiui Z0 #%d #%d' % (n, k), 'z Z1 %s' % hx(n), 'c mpz_bin_ui Z2 Z1 #%d' % k]
        def check(rep, n=n, k=k):
            out = []; e = math.comb(n, k)
            v, _ = split_reply(rep[0])
            if I(v[0]) != e: out.append(('mpz_bin_uiui:wrong', 'n=%d k=%d' % (n, k)))
            v, _ = split_reply(rep[2])
            if I(v[0]) != e: out.append(('mpz_bin_ui:wrong', 'n=%d k=%d' % (n, k)))
            return out
        return Case(cmds, check, 2, ('bin', n if n < 700 else 700 + n.bit_length(), k if k < 80 else 80 + (k * 16 // max(n, 1))), trivial=(k == 0 or k == n))
    if kind == 'binz':
        z = r.choice([gen.val(r, 3), -r.randint(0, 300), gen.signed(r, r.randint(2, 4))]); k = r.choice([0, 1, 2, 3, r.randint(0, 40), r.randint(0, 200)])
        if abs(z).bit_length() * k > 300000: k = 5
        cmds = ['z Z1 %s' % hx(z), 'c mpz_bin_ui Z0 Z1 #%d' % k, 'c mpz_bin_ui Z1 Z1 #%d' % k]
        def check(rep, z=z, k=k):
            out = []
            for idx in (1, 2):
                v, _ = split_reply(rep[idx])
                if I(v[0]) != models.binom(z, k): out.append(('mpz_bin_ui:wrong', 'n=%s k=%d' % (hx(z), k)))
            return out
        return Case(cmds, check, 2, ('binz', z < 0, min(abs(z).bit_length(), 260), min(k, 60)), trivial=(k == 0))
    if kind == 'fib':
        n = spec[1]
        cmds = ['c mpz_fib_ui Z0 #%d' % n, 'c mpz_fib2_ui Z1 Z2 #%d' % n, 'c mpz_lucnum_ui Z3 #%d' % n, 'c mpz_lucnum2_ui Z4 Z5 #%d' % n]
        def check(rep, n=n):
            out = []
            F = models.fib(n); F1 = models.fib(n - 1) if n > 0 else 1
            L = models.lucas(n); L1 = models.lucas(n - 1) if n > 0 else -1
            v, _ = split_reply(rep[0])
            if I(v[0]) != F: out.append(('mpz_fib_ui:wrong', 'n=%d' % n))
            v, _ = split_reply(rep[1])
            if [I(x) for x in v] != [F, F1]: out.append(('mpz_fib2_ui:wrong', 'n=%d' % n))
            v, _ = split_reply(rep[2])
            if I(v[0]) != L: out.append(('mpz_lucnum_ui:wrong', 'n=%d' % n))
            v, _ = split_reply(rep[3])
            if [I(x) for x in v] != [L, L1]: out.append(('mpz_lucnum2_ui:wrong', 'n=%d' % n))
            return out
        return Case(cmds, check, 4, ('fib', n if n < 5001 else 5001 + n.bit_length()), trivial=(n < 2))
    if kind == 'remove':
        # f <= 1 (including negative f) is rejected by the library with its divide-by-zero exception: outside the domain
        f = r.choice([2, 3, 5, 6, 7, 10, gen.nat(r, r.randint(1, 3)), 9, 12, (1 << 64) + 1, 1 << 64, 4])
        if abs(f) < 2: f = 2
        e = r.randint(0, 12); x = gen.signed(r, r.randint(1, 4))
        if x == 0: x = 1
        v = x * f ** e
        cmds = ['z Z1 %s' % hx(v), 'z Z2 %s' % hx(f), 'c mpz_remove Z0 Z1 Z2', 'c mpz_remove Z1 Z1 Z2']
        def check(rep, v=v, f=f):
            out = []; c = 0; y = v
            while y % f == 0: y //= f; c += 1
            for idx in (2, 3):
                o, _ = split_reply(rep[idx])
                if int(o[0]) != c or I(o[1]) != y: out.append(('mpz_remove:wrong', 'v=%s f=%s got=(%s,%s) want=(%d,%s)' % (hx(v)[:60], hx(f), o[0], o[1][:40], c, hx(y)[:40])))
            return out
        return Case(cmds, check, 2, ('remove', f if abs(f) < 12 else abs(f).bit_length() + 12, min(e, 13), f < 0))
    if kind in ('prime', 'bigprime'):
        if kind == 'prime':
            n = spec[1]; cls = spec[2]; ip = models.isprime64(n)
        else:
            _, cls, bits, _s = spec
            if cls == 'mers': n = (1 << r.choice(MERS)) - 1; ip = True
            elif cls == 'pock': n = pock_prime(r, bits); ip = True
            elif cls == 'comp2': n = pock_prime(r, bits // 2) * pock_prime(r, bits // 2); ip = False
            elif cls == 'comp3': n = pock_prime(r, 70) * pock_prime(r, 70) * r.choice([3, 1009, 1000003, pock_prime(r, 64)]); ip = False
            elif cls == 'carm': n = chernick(r, 150); ip = False
            else: n = pock_prime(r, bits // 2) ** 2; ip = False
        cmds = ['z Z1 %s' % hx(n), 'c mpz_probab_prime_p Z1 #25', 'c gmp_randseed_ui R0 #%d' % r.getrandbits(32), 'c mpz_probable_prime_p Z1 R0 #25 #0',
                'c mpz_likely_prime_p Z1 R0 #0', 'c mpz_miller_rabin Z1 #%d R0' % r.choice([1, 5, 10, 25])]
        small = n < (1 << 64) + 4096
        if small: cmds += ['c mpz_nextprime Z2 Z1', 'c mpz_next_prime_candidate Z3 Z1 R0']
        def check(rep, n=n, ip=ip, small=small, cls=cls):
            out = []; d = 'n=%s class=%s' % (n if n < 10 ** 30 else hx(n), cls)
            pp = int(split_reply(rep[1])[0][0]); pb = int(split_reply(rep[3])[0][0]); lk = int(split_reply(rep[4])[0][0]); mr = int(split_reply(rep[5])[0][0])
            for fn, val in (('mpz_probab_prime_p', pp), ('mpz_probable_prime_p', pb), ('mpz_likely_prime_p', lk), ('mpz_miller_rabin', mr)):
                if ip and val == 0: out.append(('%s:prime-rejected:%s' % (fn, n if n < 16 else 'n>15'), d))
                if not ip and val == 2: out.append(('%s:composite-certified' % fn, d))
            if not ip and pp != 0: out.append(('mpz_probab_prime_p:composite-passed-25-reps', d))
            if not ip and pb != 0: out.append(('mpz_probable_prime_p:composite-passed-prob-25', d))
            if small:
                q = n + 1
                while not models.isprime64(q): q += 1
                v, _ = split_reply(rep[6])
                if I(v[0]) != q: out.append(('mpz_nextprime:wrong', d + ' got=%s want=%d' % (v[0], q)))
                v, _ = split_reply(rep[7]); c = I(v[0])
                if not (n < c <= q): out.append(('mpz_next_prime_candidate:skipped-a-prime-or-not-greater', d + ' got=%d next prime=%d' % (c, q)))
            return out
        return Case(cmds, check, 6 if small else 4, ('prime', cls, ip, n if n < 70000 else 70000 + n.bit_length()), trivial=(n < 2))
    if kind == 'nextbig':
        _, bits, _s = spec
        P = pock_prime(r, bits); d = r.choice([1, 2, 3, 10, 30])
        n = P - d
        cmds = ['z Z1 %s' % hx(n), 'c mpz_nextprime Z2 Z1', 'c mpz_next_prime_candidate Z3 Z1 R1', 'c mpz_nextprime Z1 Z1']
        def check(rep, n=n, P=P):
            out = []
            for idx, fn in ((1, 'mpz_nextprime'), (2, 'mpz_next_prime_candidate'), (3, 'mpz_nextprime:aliased')):
                v, _ = split_reply(rep[idx]); c = I(v[0])
                if not (n < c <= P): out.append(('%s:skipped-a-certified-prime-or-not-greater' % fn, 'n=%s P=n+%d got=n+%d' % (hx(n), P - n, c - n)))
            return out
        return Case(cmds, check, 3, ('nextbig', bits, d))
    raise ValueError(kind)
