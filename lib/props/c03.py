"""C03 add/sub/neg/shift/copy compute the exact limb-vector function."""
import random
from runner import Case
from rpc import hx, I, split_reply
import gen
from sweeputil import sweep_case
from gen import B, M

PID = 'C03'
LEVEL = 'exploration'
VARIANTS = {'quick': ['asan', 'plain'], 'thorough': ['asan', 'plain', 'none']}
RULE = ('in-driver kernel sweep of mpn_add_n/sub_n/add/sub/add_1/sub_1/neg/com/lshift/rshift/copyi/copyd/zero/cmp/zero_p and '
        'companions (addadd/addsub/subadd/sumdiff/nsumdiff, lshift1/2, rshift1/2, double, half): every n in the tier range x 12 '
        'data-class pairs (full carry/borrow ripple, carry stopping at k, alternating, runs, special limbs) x permitted overlaps '
        '(in place, rp=sp+-k for shifts/copies) x every shift count (1..63 for n<=40), operands flush against PROT_NONE fences '
        '(ASan-poisoned outside), header-inline and library copies both; judged by an unsigned __int128 limb reference. mpz level: '
        'add/sub/add_ui/sub_ui/ui_sub/neg/abs/mul_2exp/set/swap over sign x relative magnitude x cancellation x alias x '
        'pre-shrunk destination, judged by Python ints. distinct = (function, n) for sweeps, (function, size buckets, signs, '
        'mode, alias) for mpz; trivial = n==1 / zero operand')
ASSUMPTIONS = ['the limb reference (drv/sweep.inc, 10-line loops over unsigned __int128) is correct; 1/1 of mpz cases go to Python']

def szb(n):
    return n if n < 44 else 44 + n.bit_length()

def specs(rng, tier, wid, nw, env):
    q = tier == 'quick'
    nmax = 130 if q else 1100
    ranges = [(n, n) for n in range(1, nmax + 1)] + [(255, 258), (511, 514)]
    ranges.sort(key=lambda x: -x[1])
    for i, (lo, hi) in enumerate(ranges):
        if i % nw == wid:
            yield ('sweep', 'aors', lo, hi, rng.getrandbits(40))
    N = 8000 if q else 600000
    for i in range(N):
        c = rng.random()
        if c < 0.5:
            yield ('aors', rng.choice(['mpz_add', 'mpz_sub']), rng.choice(list(range(0, 41)) + [64, 100, 300]), rng.choice([0, 0, 0, 0, 1, 1, 2, 5, 20]),
                   rng.randint(0, 3), rng.choice(['rand', 'equalmag', 'carrygrow', 'cancelhigh', 'ripple']), rng.choice(['w', 'w=u', 'w=v', 'u=v', 'w=u=v']), rng.getrandbits(48))
        elif c < 0.75:
            yield ('aors_ui', rng.choice(['mpz_add_ui', 'mpz_sub_ui', 'mpz_ui_sub']), rng.choice(list(range(0, 41))), rng.randint(0, 1),
                   rng.choice(['rand', 'ripple', 'cross', 'small']), rng.random() < 0.5, rng.getrandbits(48))
        elif c < 0.9:
            yield ('shift', rng.choice(list(range(0, 41))), rng.randint(0, 1), rng.choice(['rand', 'ones', 'top1', 'topmax', 'bit']), rng.random() < 0.5, rng.getrandbits(48))
        else:
            yield ('unary', rng.choice(['mpz_neg', 'mpz_abs', 'mpz_set', 'mpz_swap']), rng.choice(list(range(0, 41))), rng.randint(0, 1), rng.random() < 0.5, rng.getrandbits(48))

def build(spec, env):
    kind = spec[0]; r = random.Random(spec[-1])
    if kind == 'sweep':
        return sweep_case(spec[1], spec[2], spec[3], spec[4], 'C03')
    if kind == 'aors':
        _, fn, un, dn, sg, mode, alias, _s = spec
        a = gen.nat(r, un); vn = max(0, un - dn) if r.random() < 0.5 else un + dn
        b = gen.nat(r, vn)
        if mode == 'equalmag': b = a
        elif mode == 'carrygrow': a = (1 << (64 * un)) - 1 if un else 0; b = r.choice([1, a, gen.nat(r, max(1, un), 'ones')])
        elif mode == 'cancelhigh' and un:
            b = (a & ~((1 << (64 * r.randint(0, un - 1))) - 1)) | r.getrandbits(8)
        elif mode == 'ripple' and un: a = 1 << (64 * un - r.randint(1, 64)); b = r.choice([1, 2, 1 << 64])
        if sg & 1: a = -a
        if sg & 2: b = -b
        if alias in ('u=v', 'w=u=v'): b = a
        W, U, V = {'w': ('Z0', 'Z1', 'Z2'), 'w=u': ('Z1', 'Z1', 'Z2'), 'w=v': ('Z2', 'Z1', 'Z2'), 'u=v': ('Z0', 'Z1', 'Z1'), 'w=u=v': ('Z1', 'Z1', 'Z1')}[alias]
        cmds = ['z Z0 %s' % hx(r.getrandbits(r.choice([0, 1, 64, 3000]))), 'z Z1 %s' % hx(a), 'z Z2 %s' % hx(b), 'shrink %s' % W, 'c %s %s %s %s' % (fn, W, U, V)]
        e = a + b if fn == 'mpz_add' else a - b
        def check(rep, e=e, fn=fn, a=a, b=b, alias=alias, mode=mode):
            v, _ = split_reply(rep[4])
            if I(v[0]) != e: return [('%s:wrong:%s' % (fn, alias), 'mode=%s a=%s b=%s got=%s' % (mode, hx(a)[:70], hx(b)[:70], v[0][:70]))]
        return Case(cmds, check, 1, (fn, szb(un), dn, sg, mode, alias), trivial=(a == 0 or b == 0))
    if kind == 'aors_ui':
        _, fn, un, neg, mode, alias, _s = spec
        a = gen.nat(r, un); v = r.getrandbits(64)
        if mode == 'ripple': a = (1 << (64 * un)) - 1 if un else 0; v = r.choice([1, M, 2])
        elif mode == 'cross': a = r.getrandbits(64) if un else 0; v = r.choice([a, (a + 1) & M, max(a - 1, 0), M])
        elif mode == 'small': v = r.choice([0, 1, 2, 1 << 63, M])
        if neg: a = -a
        W = 'Z1' if alias else 'Z0'
        if fn == 'mpz_ui_sub': cmds = ['z Z1 %s' % hx(a), 'shrink %s' % W, 'c mpz_ui_sub %s #%d Z1' % (W, v)]; e = v - a
        else: cmds = ['z Z1 %s' % hx(a), 'shrink %s' % W, 'c %s %s Z1 #%d' % (fn, W, v)]; e = a + v if fn == 'mpz_add_ui' else a - v
        def check(rep, e=e, fn=fn, a=a, v=v):
            x, _ = split_reply(rep[2])
            if I(x[0]) != e: return [('%s:wrong' % fn, 'a=%s v=%#x got=%s' % (hx(a)[:70], v, x[0][:70]))]
        return Case(cmds, check, 1, (fn, szb(un), neg, mode, alias), trivial=(a == 0 or v == 0))
    if kind == 'shift':
        _, un, neg, cls, alias, _s = spec
        a = gen.nat(r, un, cls) * (-1 if neg else 1)
        b = r.choice([0, 1, 63, 64, 65, 127, 128, r.randint(0, 200), 64 * r.randint(0, 9), 64 - (abs(a).bit_length() % 64), 5000])
        W = 'Z1' if alias else 'Z0'
        cmds = ['z Z1 %s' % hx(a), 'shrink %s' % W, 'c mpz_mul_2exp %s Z1 #%d' % (W, b)]
        def check(rep, a=a, b=b):
            x, _ = split_reply(rep[2])
            if I(x[0]) != a << b: return [('mpz_mul_2exp:wrong', 'a=%s b=%d got=%s' % (hx(a)[:70], b, x[0][:70]))]
        return Case(cmds, check, 1, ('mul_2exp', szb(un), neg, cls, alias, b % 64 == 0, (abs(a).bit_length() + b) % 64 in (0, 1)), trivial=(a == 0))
    if kind == 'unary':
        _, fn, un, neg, alias, _s = spec
        a = gen.nat(r, un) * (-1 if neg else 1); w = gen.val(r, 5)
        W = 'Z1' if alias and fn != 'mpz_swap' else 'Z0'
        cmds = ['z Z0 %s' % hx(w), 'z Z1 %s' % hx(a), 'shrink %s' % W, 'c %s %s Z1' % (fn, W)]
        def check(rep, a=a, w=w, fn=fn):
            x, _ = split_reply(rep[3])
            e = {'mpz_neg': [-a], 'mpz_abs': [abs(a)], 'mpz_set': [a], 'mpz_swap': [a, w]}[fn]
            if [I(t) for t in x] != e: return [('%s:wrong' % fn, 'a=%s got=%s' % (hx(a)[:70], x))]
        return Case(cmds, check, 1, (fn, szb(un), neg, alias), trivial=(a == 0))
    raise ValueError(kind)
