"""C07 gcd, gcdext, lcm, invert, Jacobi/Kronecker."""
import random, math
from runner import Case
from rpc import hx, I, split_reply
import gen, models
from gen import B, M

PID = 'C07'
LEVEL = 'exploration'
VARIANTS = {'quick': ['asan', 'plain'], 'thorough': ['asan', 'plain', 'asan-tdbg']}
RULE = ('[huge class: operands of 3x..6x HGCD_REDUCE_THRESHOLD limbs (all-ones A over random B, all-ones B under random A, 2^k-c pairs, long runs) with the hgcd_matrix_apply fold carries of A and of B required through hooks 60..67] operand pairs over sizes 1..30 limbs in pairs, sizes around MATRIX22_STRASSEN/HGCD/HGCD_APPR/GCD_DC/GCDEXT_DC (and '
        'HGCD_REDUCE in thorough) of the variant\'s table, size differences 0,1,2,half,all; value modes: random, equal, multiple, '
        'huge common factor, powers of two and odd*2^k, consecutive Fibonacci numbers, continued fractions with prescribed '
        'quotient sequences (all ones, one huge quotient, quotients B-1,B,B+1), |b|=2g, b|a, zeros, all signs. Oracles: math.gcd; '
        'Bezout identity plus the manual\'s cofactor normalisation (unique pair computed by the model); lcm; invert existence and '
        'range; own Kronecker model on all six entry points; mpn_gcd/gcd_1/gcdext held to their documented contracts. '
        'distinct = (group, mode, size buckets, signs); trivial = an operand 0')
ASSUMPTIONS = ['Python math.gcd/pow are exact; Kronecker model self-tested against Euler criterion and multiplicativity']

MODES = ['rand', 'equal', 'multiple', 'hugeg', 'pow2', 'fib', 'cf-ones', 'cf-huge', 'cf-B', 'b=2g', 'zero', 'small', 'special']

def szb(n):
    return n if n < 32 else 32 + n.bit_length() * 2 + ((n >> (n.bit_length() - 2)) & 1)

def from_cf(r, qs, g=1):
    """run Euclid backwards: returns (a,b) with the given quotient sequence"""
    a, b = 1, 0
    for q in reversed(qs):
        a, b = q * a + b, a
    return a * g, b * g

def make_pair(r, an, bn, mode):
    if mode == 'rand': return gen.nat(r, an), gen.nat(r, bn)
    if mode == 'special': return gen.nat(r, an, 'special'), gen.nat(r, bn, r.choice(['special', 'ones', 'runs']))
    if mode == 'small': return gen.val(r, 2, False), gen.val(r, 2, False)
    if mode == 'equal': a = gen.nat(r, an); return a, a
    if mode == 'multiple':
        b = gen.nat(r, bn); return b * gen.nat(r, max(1, an - bn + 1)), b
    if mode == 'hugeg':
        gl = max(1, min(an, bn) - r.choice([0, 1, 1, 2])); g = gen.nat(r, gl)
        x = gen.nat(r, max(1, an - gl)) if an > gl else r.randint(1, 9); y = gen.nat(r, max(1, bn - gl)) if bn > gl else r.randint(1, 9)
        return g * x, g * y
    if mode == 'pow2':
        a = gen.nat(r, max(1, an - 1), 'rand') | 1; b = gen.nat(r, max(1, bn - 1), 'rand') | 1
        return r.choice([a << r.randint(0, 130), 1 << (64 * an - 1)]), r.choice([b << r.randint(0, 130), 1 << r.randint(0, 64 * bn)])
    if mode == 'fib':
        k = int(64 * an / 0.6942) - r.randint(0, 40)
        if k < 2: k = 2
        g = r.choice([1, 1, gen.nat(r, 1)])
        return models.fib(k + 1) * g, models.fib(k) * g
    if mode.startswith('cf'):
        bits = 64 * an; qs = []; tot = 0
        while tot < bits:
            if mode == 'cf-ones': q = 1 if r.random() < 0.9 else r.randint(1, 3)
            elif mode == 'cf-huge': q = r.randint(1, 5)
            else: q = r.choice([B - 1, B, B + 1, (1 << 63), r.randint(1, 4), (1 << 32), B - 2])
            qs.append(q); tot += q.bit_length() - (0 if q > 1 else 0.3)
        if mode == 'cf-huge' and qs: qs[len(qs) // 2] = r.getrandbits(r.choice([64, 65, 128, 200])) | 1
        g = r.choice([1, 1, 1, gen.nat(r, 1), 1 << r.randint(1, 70)])
        return from_cf(r, qs, g)
    if mode == 'b=2g':
        g = gen.nat(r, bn); return g * (2 * gen.nat(r, max(1, an - bn)) + 1), 2 * g
    if mode == 'zero': return r.choice([0, gen.nat(r, an)]), r.choice([0, 0, gen.nat(r, bn)])
    if mode == 'mersa':
        # A all ones, B random of the same limb count (small quotients, so the half-gcd succeeds): the first hgcd_matrix_apply folds an all-ones A
        return (1 << (64 * an)) - r.choice([1, 1, 3, r.getrandbits(40) | 1]), gen.nat(r, an, 'rand') >> r.randint(0, 2)
    if mode == 'mersb':
        # B all ones below a random A with the same number of limbs
        k = 64 * an - r.randint(1, 3)
        return (1 << k) | r.getrandbits(k), (1 << k) - r.choice([1, 1, 3, r.getrandbits(40) | 1])
    if mode.startswith('mers'):
        # operands with very long runs of ones (2^k - c): the wrap-around folds of hgcd_matrix_apply (mod B^modn - 1) carry out only for such data
        g = r.choice([1, 1, gen.nat(r, 1) | 1, (1 << r.randint(2, 200)) - 1]) if mode == 'mers' else gen.nat(r, max(1, min(an, bn) // 3), 'ones')
        ka = 64 * an - r.randint(0, 63) - g.bit_length(); kb = 64 * bn - r.randint(0, 63) - g.bit_length()
        a = (1 << max(ka, 2)) - r.choice([1, 1, 3, r.getrandbits(60) | 1, (1 << (ka // 2)) + 1])
        b = (1 << max(kb, 2)) - r.choice([1, 1, 1, 5, r.getrandbits(60) | 1])
        return a * g, b * g
    if mode == 'longruns':
        return gen.nat(r, an, 'runs') | (((1 << (64 * (an // 2))) - 1) << (64 * (an // 4))), gen.nat(r, bn, 'runs') | (((1 << (64 * (bn // 2))) - 1) << (64 * (bn // 3)))
    raise ValueError(mode)

def sizes(th, tier):
    q = tier == 'quick'
    S = []
    R = range(1, 31) if not q else list(range(1, 13)) + [16, 22, 23, 24, 30]
    for an in R:
        for bn in R:
            if bn <= an: S.append((an, bn))
    ts = [th.get(k) for k in ('MATRIX22_STRASSEN_THRESHOLD', 'HGCD_THRESHOLD', 'HGCD_APPR_THRESHOLD', 'GCD_DC_THRESHOLD', 'GCDEXT_DC_THRESHOLD')]
    ts = sorted({t for t in ts if t and t < 3000})
    for t in ts:
        for an in (t - 1, t, t + 1, 2 * t, 2 * t + 1):
            for d in (0, 1, 2, an // 2, an - 1):
                if an - d >= 1: S.append((an, an - d))
    if not q:
        for an in gen.ladder(31, 2500, 1.3):
            for d in (0, 1, an // 2): S.append((an, an - d))
        hr = th.get('HGCD_REDUCE_THRESHOLD')
        if hr and hr < 9000:
            for an in (hr - 1, hr + 1, 2 * hr + 1):
                for d in (0, an // 3): S.append((an, an - d))
    return S

def huge_sizes(th, tier):
    """operand sizes that make mpn_gcd / mpn_gcdext call mpn_hgcd_reduce above HGCD_REDUCE_THRESHOLD (hgcd_appr + hgcd_matrix_apply with folding)"""
    hr = th.get('HGCD_REDUCE_THRESHOLD')
    if not hr or hr > 12000: return []
    base = [3 * hr + 7, 3 * hr + 300] if tier == 'quick' else [3 * hr + 7, 3 * hr + 300, 4 * hr + 1, 6 * hr + 11]
    return [(an, an - d) for an in base for d in ((0, 40) if tier == 'quick' else (0, 1, 40, an // 5))]

def specs(rng, tier, wid, nw, env):
    S = sizes(env.th, tier)
    S.sort(key=lambda s: -s[0])
    k = 0
    for (an, bn) in huge_sizes(env.th, tier):
        for m in ('mersa', 'mersb', 'mers', 'mersg', 'longruns', 'rand'):
            k += 1
            if k % nw == wid: yield ('z', an, bn, m, 0, rng.getrandbits(48))
    for (an, bn) in S:
        modes = MODES if (an <= 40 or tier != 'quick') else ['rand', 'fib', 'cf-B', 'hugeg', 'cf-huge']
        if an > 3000: modes = ['rand', 'cf-B', 'hugeg']
        for m in modes:
            k += 1
            if k % nw != wid: continue
            yield ('z', an, bn, m, rng.randint(0, 3), rng.getrandbits(48))
            if an <= 700 or tier != 'quick':
                yield ('n', an, bn, m, rng.getrandbits(48))
    N = 8000 if tier == 'quick' else 150000
    for i in range(N):
        c = rng.random()
        if c < 0.45: yield ('z', rng.randint(1, 8), rng.randint(1, 8), rng.choice(MODES), rng.randint(0, 3), rng.getrandbits(48))
        elif c < 0.85: yield ('kron', rng.randint(0, 6), rng.randint(0, 6), rng.choice(['rand', 'small', 'special', 'pow2', 'multiple', 'zero', 'cf-B']), rng.randint(0, 3), rng.getrandbits(48))
        else: yield ('ui', rng.randint(0, 9), rng.randint(0, 1), rng.choice(['rand', 'multiple', 'zero', 'pow2']), rng.getrandbits(48))

LEGENDRE_PRIMES = [3, 5, 7, 11, 13, 8191, 65537, (1 << 31) - 1, (1 << 61) - 1, (1 << 64) - 59, (1 << 64) + 13, (1 << 89) - 1, (1 << 107) - 1, (1 << 127) - 1, (1 << 128) + 51, (1 << 521) - 1]
def build(spec, env):
    kind = spec[0]; r = random.Random(spec[-1])
    if kind == 'z':
        _, an, bn, mode, sg, _s = spec
        a, b = make_pair(r, an, bn, mode)
        if r.random() < 0.3: a, b = b, a
        if sg & 1: a = -a
        if sg & 2: b = -b
        cmds = ['z Z1 %s' % hx(a), 'z Z2 %s' % hx(b), 'c mpz_gcd Z3 Z1 Z2', 'c mpz_gcdext Z3 Z4 Z5 Z1 Z2', 'c mpz_lcm Z3 Z1 Z2']
        inv = abs(b) > 1
        cmds.append('c mpz_invert Z3 Z1 Z2' if inv else 'ping')
        # the symbol over the same operand pairs: the sub-quadratic Jacobi code only starts at GCD_DC_THRESHOLD limbs
        huge = max(an, bn) > 5000       # the Python symbol / cofactor-normalisation models are quadratic with a large constant: judged by identities there
        cmds.append('c mpz_jacobi Z1 Z2' if not huge else 'ping')
        big = max(an, bn) > 400
        def check(rep, a=a, b=b, mode=mode, inv=inv, big=big, huge=huge):
            out = []; g = math.gcd(a, b)
            sz = 'an=%d bn=%d mode=%s' % (gen.nlimbs(a), gen.nlimbs(b), mode)
            v, _ = split_reply(rep[2])
            if I(v[0]) != g: out.append(('mpz_gcd:wrong', sz))
            v, _ = split_reply(rep[3]); gg, s, t = I(v[0]), I(v[1]), I(v[2])
            if huge:
                if gg != g or a * s + b * t != g: out.append(('mpz_gcdext:identity', sz + ' a=%s b=%s' % (hx(a)[:60], hx(b)[:60])))
                elif abs(a) != abs(b) and g and (2 * g * abs(s) > abs(b) or 2 * g * abs(t) > abs(a)): out.append(('mpz_gcdext:cofactor-bound', sz))
                v, _ = split_reply(rep[4])
                if I(v[0]) != abs(a * b) // g: out.append(('mpz_lcm:wrong', sz))
                if inv:
                    v, _ = split_reply(rep[5]); ex = g == 1
                    if (int(v[0]) != 0) != ex: out.append(('mpz_invert:existence', sz))
                    elif ex and not (0 <= I(v[1]) < abs(b) and (a * I(v[1])) % abs(b) == 1): out.append(('mpz_invert:value', sz))
                return out
            if gg != g or a * s + b * t != g: out.append(('mpz_gcdext:identity', sz + ' a=%s b=%s' % (hx(a)[:60], hx(b)[:60])))
            else:
                G, S, T = models.xgcd_min(a, b)
                if S is not None and (s, t) != (S, T):
                    out.append(('mpz_gcdext:normalisation:%s' % mode, sz + ' a=%s b=%s got s=%s t=%s want s=%s t=%s' % (hx(a)[:60], hx(b)[:60], hx(s)[:40], hx(t)[:40], hx(S)[:40], hx(T)[:40])))
                if a == 0 and b == 0 and (s, t) != (0, 0) and False: pass
            v, _ = split_reply(rep[4]); e = 0 if a == 0 or b == 0 else abs(a * b) // g
            if I(v[0]) != e: out.append(('mpz_lcm:wrong', sz))
            if inv:
                v, _ = split_reply(rep[5]); ex = g == 1
                if (int(v[0]) != 0) != ex: out.append(('mpz_invert:existence', sz + ' a=%s b=%s ret=%s' % (hx(a)[:60], hx(b)[:60], v[0])))
                elif ex and I(v[1]) != pow(a, -1, abs(b)): out.append(('mpz_invert:value', sz + ' a=%s b=%s' % (hx(a)[:60], hx(b)[:60])))
            v, _ = split_reply(rep[6])
            if int(v[0]) != models.kron(a, b): out.append(('mpz_jacobi:wrong:%s' % mode, sz + ' a=%s b=%s got=%s want=%d' % (hx(a)[:60], hx(b)[:60], v[0], models.kron(a, b))))
            return out
        return Case(cmds, check, 5 if inv else 4, ('z', mode, szb(an), szb(bn), sg), trivial=(a == 0 or b == 0))
    if kind == 'n':
        _, an, bn, mode, _s = spec
        a, b = make_pair(r, an, bn, mode)
        if a == 0 or b == 0: return None
        if a < b: a, b = b, a
        # mpn_gcd: s1 >= s2 in bits, s2 odd
        z = (b & -b).bit_length() - 1; bo = b >> z
        a2 = a if a.bit_length() >= bo.bit_length() else bo
        un, vn = gen.nlimbs(a2), gen.nlimbs(bo)
        xn, yn = gen.nlimbs(a), gen.nlimbs(b)
        cmds = ['l 0 %d %s' % (un, hx(a2)), 'l 1 %d %s' % (vn, hx(bo)), 'c mpn_gcd L2:%d L0 #%d L1 #%d' % (vn, un, vn),
                'l 3 %d %s' % (xn + 1, hx(a)), 'l 4 %d %s' % (yn + 1, hx(b)), 'c mpn_gcdext L5:%d L6:%d & L3 #%d L4 #%d' % (xn + 1, xn + 1, xn, yn),
                'l 7 %d %s' % (xn, hx(a)), 'c mpn_gcd_1 L7 #%d #%d' % (xn, (bo & M) | 1)]
        def check(rep, a=a, b=b, a2=a2, bo=bo, mode=mode, xn=xn, yn=yn):
            out = []; sz = 'an=%d bn=%d mode=%s' % (xn, yn, mode)
            v, _ = split_reply(rep[2]); rn = int(v[0]); bufs = {x.split('=')[0]: I(x.split('=')[1]) for x in v[1:]}
            g = math.gcd(a2, bo)
            if rn != gen.nlimbs(g) or (bufs['L2'] & ((1 << (64 * rn)) - 1)) != g: out.append(('mpn_gcd:wrong', sz))
            v, _ = split_reply(rep[5]); gn = int(v[0]); bufs = {x.split('=')[0]: I(x.split('=')[1]) for x in v[1:] if '=' in x}
            sn = int([x for x in v[1:] if '=' not in x][0])
            G = math.gcd(a, b); gg = bufs['L5'] & ((1 << (64 * gn)) - 1); S = bufs['L6'] & ((1 << (64 * abs(sn))) - 1)
            if sn < 0: S = -S
            if gg != G or gn != gen.nlimbs(G): out.append(('mpn_gcdext:gcd', sz))
            elif (G - a * S) % b != 0: out.append(('mpn_gcdext:identity', sz))
            elif not (S == 1 or abs(S) * 2 * G < b): out.append(('mpn_gcdext:cofactor-bound', sz + ' S=%s' % hx(S)[:60]))
            elif (S == 0) != (a % b == 0): out.append(('mpn_gcdext:S-zero-iff-V-divides-U', sz))
            elif S != 0 and abs(S) >> (64 * (abs(sn) - 1)) == 0: out.append(('mpn_gcdext:sn-not-normalised', sz))
            v, _ = split_reply(rep[7])
            if int(v[0]) != math.gcd(a, (bo & M) | 1): out.append(('mpn_gcd_1:wrong', sz))
            return out
        return Case(cmds, check, 3, ('n', mode, szb(an), szb(bn)))
    if kind == 'kron':
        _, an, bn, mode, sg, _s = spec
        a, b = make_pair(r, max(an, 1), max(bn, 1), mode) if mode not in ('small',) else (gen.val(r, 2, False), gen.val(r, 2, False))
        if an == 0: a = r.choice([0, 1, 2, 3])
        if bn == 0: b = r.choice([0, 1, 2, 3, 4, 8])
        if sg & 1: a = -a
        if sg & 2: b = -b
        sa = r.choice([a, gen.val(r, 1)]); sa = max(-(1 << 63), min((1 << 63) - 1, sa)); ua = abs(sa) & M if r.random() < 0.5 else r.getrandbits(64)
        # mpz_kronecker is documented for every pair; mpz_legendre only for an odd positive prime p (both are aliases of mpz_jacobi today)
        pl = r.choice(LEGENDRE_PRIMES)
        cmds = ['z Z1 %s' % hx(a), 'z Z2 %s' % hx(b), 'c mpz_jacobi Z1 Z2',
                'c mpz_kronecker_si Z1 #%d' % sa, 'c mpz_kronecker_ui Z1 #%d' % ua, 'c mpz_si_kronecker #%d Z2' % sa, 'c mpz_ui_kronecker #%d Z2' % ua,
                'c mpz_kronecker Z1 Z2', 'z Z4 %s' % hx(pl), 'c mpz_legendre Z1 Z4']
        def check(rep, a=a, b=b, sa=sa, ua=ua, pl=pl):
            out = []
            for idx, fn, x, y in ((2, 'mpz_jacobi', a, b), (3, 'mpz_kronecker_si', a, sa), (4, 'mpz_kronecker_ui', a, ua), (5, 'mpz_si_kronecker', sa, b), (6, 'mpz_ui_kronecker', ua, b),
                                  (7, 'mpz_kronecker', a, b), (9, 'mpz_legendre', a, pl)):
                v, _ = split_reply(rep[idx])
                if int(v[0]) != models.kron(x, y): out.append(('%s:wrong' % fn, 'a=%s b=%s got=%s want=%d' % (hx(x)[:70], hx(y)[:70], v[0], models.kron(x, y))))
            return out
        return Case(cmds, check, 7, ('kron', mode, an, bn, sg, a % 8, b % 8 if b else 9))
    if kind == 'ui':
        _, an, neg, mode, _s = spec
        u = r.choice([0, 1, 2, r.getrandbits(64), r.getrandbits(r.randint(1, 64)), M, 1 << 63])
        a = gen.nat(r, an)
        if mode == 'multiple' and u: a = a * u
        if mode == 'zero': a = 0
        if mode == 'pow2': a = 1 << r.randint(0, 64 * max(an, 1)); u = 1 << r.randint(0, 63)
        if neg: a = -a
        cmds = ['z Z1 %s' % hx(a), 'c mpz_gcd_ui Z3 Z1 #%d' % u, 'c mpz_lcm_ui Z3 Z1 #%d' % u]
        def check(rep, a=a, u=u):
            out = []; g = math.gcd(a, u)
            v, _ = split_reply(rep[1])
            # the return value is the gcd if it fits an unsigned long, else 0 (u == 0 and |a| too big)
            er = g if g <= M else 0
            if I(v[1]) != g or int(v[0]) != er: out.append(('mpz_gcd_ui:wrong', 'a=%s u=%d ret=%s' % (hx(a)[:70], u, v[0])))
            v, _ = split_reply(rep[2]); e = 0 if a == 0 or u == 0 else abs(a * u) // g
            if I(v[0]) != e: out.append(('mpz_lcm_ui:wrong', 'a=%s u=%d' % (hx(a)[:70], u)))
            return out
        return Case(cmds, check, 2, ('ui', mode, an, neg, u.bit_length()), trivial=(a == 0 or u == 0))
    raise ValueError(kind)

HOOKS = {60: 'hgcd_matrix_apply (above HGCD_REDUCE_THRESHOLD)', 61: 'hgcd_matrix_apply wrap-around fold', 62: 'fold of A carries out', 63: 'fold of B carries out',
         64: 'mpn_hgcd_appr', 65: 'mpn_gcd hgcd step', 66: 'mpn_gcdext hgcd step', 67: 'mpn_gcd subdiv fallback step'}
def post(tier, agg, cov):
    hits = agg.get('hits', {})
    cov['gcd_regimes_observed'] = {HOOKS[k]: hits.get(k, 0) for k in HOOKS}
    missing = [HOOKS[k] for k in HOOKS if not hits.get(k)]
    if missing: return {'inconclusive': 'gcd regimes never reached (hook counters zero): %s' % missing}
