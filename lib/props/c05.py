"""C05 outputs may alias inputs; input-only operands are never modified."""
import random, itertools, math
from fractions import Fraction
from runner import Case
from rpc import hx, I, split_reply
import gen, api
from sweeputil import sweep_case

PID = 'C05'
LEVEL = 'exploration'
VARIANTS = {'quick': ['asan', 'asan-tdbg'], 'thorough': ['asan', 'asan-tdbg', 'plain']}
RULE = ('every mpz/mpq/mpf function of drv/api.inc with an output and a same-typed input x every partition of its same-typed arguments into '
        'classes of identical variables in which no two outputs coincide (the manual\'s exclusions: q==r, rop1==rop2, g/s/t, fn==fnsub1) x K input '
        'tuples from the hostile value classes within the function\'s documented domain; the aliased destination is pre-shrunk to the smallest legal '
        'allocation so it must be reallocated while it is a source; the call with distinct variables holding the same values is the reference, and '
        'return value and every output must be identical (mpf: same precisions, bit-identical); the driver\'s digest monitor checks that read-only '
        'operands are unchanged in both runs, and for every function of the table (with or without outputs) on edge and random operands; mpn in-place/offset overlaps by the kernel sweeps. distinct = (function, partition, size buckets)')
ASSUMPTIONS = ['the distinct-variable call is the reference (its value is judged by the other properties\' oracles)',
               'asan-tdbg turns a use of a source after the destination was reallocated into a heap-use-after-free']

TYPES = {'Z': 'z', 'z': 'z', 'Q': 'q', 'q': 'q', 'F': 'f', 'f': 'f'}

def partitions(items):
    if not items: yield []; return
    first, rest = items[0], items[1:]
    for p in partitions(rest):
        yield [[first]] + p
        for i in range(len(p)):
            yield p[:i] + [[first] + p[i]] + p[i + 1:]

def alias_patterns(sig):
    """list of partitions (as tuple of tuples of arg positions) with at least one non-singleton class"""
    out = []
    for ty in 'zqf':
        pos = [i for i, ch in enumerate(sig) if TYPES.get(ch) == ty]
        W = {i for i in pos if sig[i].isupper()}
        if len(pos) < 2: continue
        for p in partitions(pos):
            if all(len(c) == 1 for c in p): continue
            if any(len(W & set(c)) > 1 for c in p): continue
            out.append(tuple(tuple(sorted(c)) for c in p if len(c) > 1))
    return out

TARGETS = []
for name, (ret, sig) in sorted(api.FNS.items()):
    if not api.is_generic(name): continue
    if any(ch in sig for ch in 'IJKwvC') and name not in (): continue
    pats = alias_patterns(sig)
    for p in pats: TARGETS.append((name, p))

def valid(name, sig, v):
    zi = [i for i, ch in enumerate(sig) if ch == 'z']; ui = [i for i, ch in enumerate(sig) if ch == 'u']
    qi = [i for i, ch in enumerate(sig) if ch == 'q']; fi = [i for i, ch in enumerate(sig) if ch == 'f']
    if name in api.DIVZ: return v[zi[-1]] != 0
    if name in api.DIVUI: return v[ui[-1]] != 0
    if name == 'mpz_divexact': return v[zi[1]] != 0 and v[zi[0]] % v[zi[1]] == 0
    if name == 'mpz_divexact_ui': return v[ui[0]] != 0 and v[zi[0]] % v[ui[0]] == 0
    if name == 'mpz_powm': return v[zi[2]] != 0 and 0 <= v[zi[1]] < (1 << 200) and abs(v[zi[2]]).bit_length() < 700
    if name == 'mpz_powm_ui': return v[zi[-1]] != 0
    if name == 'mpz_invert': return abs(v[zi[1]]) > 1
    if name in ('mpz_sqrt', 'mpz_sqrtrem'): return v[zi[0]] >= 0
    if name in ('mpz_root', 'mpz_nthroot', 'mpz_rootrem'): return v[ui[0]] >= 1 and (v[ui[0]] % 2 == 1 or v[zi[0]] >= 0)
    if name == 'mpz_remove': return v[zi[1]] >= 2
    if name == 'mpz_urandomm': return v[zi[0]] > 0
    if name in ('mpz_nextprime', 'mpz_next_prime_candidate'): return 0 <= v[zi[0]] < (1 << 220)
    if name == 'mpq_div': return v[qi[1]] != 0
    if name == 'mpq_inv': return v[qi[0]] != 0
    if name == 'mpq_set_den': return v[zi[0]] != 0
    if name == 'mpf_div': return v[fi[1]][0] != 0
    if name in ('mpf_ui_div', 'mpf_reldiff'): return v[fi[0]][0] != 0
    if name == 'mpf_sqrt': return v[fi[0]][0] >= 0
    return True

PRAW_FNS = ('mpf_add', 'mpf_sub', 'mpf_mul', 'mpf_div', 'mpf_sqrt', 'mpf_add_ui', 'mpf_sub_ui', 'mpf_ui_sub', 'mpf_mul_ui', 'mpf_div_ui', 'mpf_ui_div')

def specs(rng, tier, wid, nw, env):
    q = tier == 'quick'
    K = 12 if q else 200
    k = 0
    for (name, pat) in TARGETS:
        for j in range(K):
            k += 1
            if k % nw == wid: yield ('alias', name, [list(c) for c in pat], rng.getrandbits(48))
    # set_prec_raw-lowered (over-long) operands aliased with the destination: every size relation that decides whether a temporary copy is needed
    for (name, pat) in TARGETS:
        if name not in PRAW_FNS: continue
        for low in (53, 128, 192):
            for vn in (1, 2, 3):
                for rel in range(10):
                    for rep in range(8 if q else 60):
                        k += 1
                        if k % nw == wid: yield ('alias', name, [list(c) for c in pat], (low, vn, rel), rng.getrandbits(48))
    # second half of the property for EVERY function, also those without an output of the same type (predicates, conversions, comparisons):
    # edge and random in-domain operands, the driver's digest monitor checks that no read-only operand changed (value or limbs) (A67)
    import c04
    for name in c04.EDGE_FNS:
        for j in range(100 if q else 3000):
            k += 1
            if k % nw == wid: yield ('immut', name, j, rng.getrandbits(48), 'edge' if j % 2 else 'rand')
    for grp in ('aors', 'logic', 'mul1', 'div1'):
        for n in range(1, 33 if q else 200):
            k += 1
            if k % nw == wid: yield ('sweep', grp, n, n, rng.getrandbits(40))

def build(spec, env):
    if spec[0] == 'sweep': return sweep_case(spec[1], spec[2], spec[3], spec[4], 'C05')
    if spec[0] == 'immut':
        import c04
        case = c04.edge_build(('edge',) + tuple(spec[1:]), env)
        if case is not None: case.tag = ('immut',) + tuple(case.tag[1:]); case.check = lambda rep: []
        return case
    name, pat, sd = spec[1], spec[2], spec[-1]; forced = tuple(spec[3]) if len(spec) == 5 else None
    r = random.Random(sd); ret, sig = api.FNS[name]
    cls_of = {}
    for ci, c in enumerate(pat):
        for p_ in c: cls_of[p_] = ci
    for attempt in range(30):
        v = api.gen_args(r, name, maxl=r.choice([2, 6, 6, 40]))
        v = api.fix(r, name, v)
        if v is None: return None
        # unify classes: value of the first read-only member (or of the first member)
        for c in pat:
            src = next((p_ for p_ in c if sig[p_].islower()), c[0])
            for p_ in c: v[p_] = v[src]
        # W arguments that are in/out are plain mpz/mpq/mpf values already
        if valid(name, sig, v): break
    else:
        return None
    prec = r.choice(api.PRECS)
    # mpf variables whose precision was lowered with mpf_set_prec_raw keep more limbs than prec+1 (the documented way to run the first Newton
    # steps at low precision): destination == such a source, with the size relations that decide whether a temporary copy is needed (A54)
    fpos = [i for i, ch in enumerate(sig) if ch in 'Ff']
    praw = None
    # only the functions that compute a fresh prec+1-limb result; the in-place forms of neg/abs/set/mul_2exp/div_2exp/trunc/ceil/floor just keep
    # the limbs that are there (more than a distinct destination of the lowered precision would get), which is by design and not judged
    if fpos and name in PRAW_FNS and (forced or r.random() < 0.3):
        low = r.choice([53, 64, 128, 192, 256]); pl = max(2, (low + 127) // 64); vn = r.choice([1, 1, 2, 3, pl]); rel = r.randrange(10)
        if forced: low, vn, rel = forced; pl = max(2, (low + 127) // 64)
        n = [pl + 1, pl + 2, 2 * pl - 1, 2 * pl, 2 * pl + 1, 2 * pl + vn - 1, 2 * pl + vn, 2 * pl + vn + 1, 3 * pl, 3 * pl + vn][rel]
        prec = 64 * (n + 1); praw = low
        sizes = [n, vn, r.choice([1, pl, n])]
        lowf = [i for i in fpos if sig[i] == 'f']
        for i in fpos:
            j_ = lowf.index(i) if i in lowf else 2
            if len(lowf) == 1 and r.random() < 0.3: j_ = 1
            sz = sizes[min(j_, 2)]; m_ = r.getrandbits(64 * sz) | (1 << (64 * sz - 1)) | 1
            v[i] = (m_ * (r.choice([1, 1, -1]) if name != 'mpf_sqrt' else 1), -64 * sz + 64 * r.choice([0, 0, 1, -1, 3]))
        for c in pat:
            src = next((p_ for p_ in c if sig[p_].islower()), c[0])
            for p_ in c: v[p_] = v[src]
        if not valid(name, sig, v): return None
    def setup(varmap):
        cmds = []; done = set()
        for i, ch in enumerate(sig):
            var = varmap.get(i)
            if var is None or var in done: continue
            done.add(var)
            if ch in 'Zz': cmds.append('z %s %s' % (var, hx(v[i])))
            elif ch in 'Qq': cmds.append('q %s %s %s' % (var, hx(v[i].numerator), hx(v[i].denominator)))
            elif ch in 'Ff': cmds.append(api.fcmd(var, prec, v[i]))
        return cmds
    def call(varmap):
        toks = []
        for i, ch in enumerate(sig):
            if ch in 'ZzQqFf': toks.append(varmap[i])
            elif ch == 'R': toks.append('R0')
            else: toks.append(api.tok(ch, name, v[i]))
        return 'c %s %s' % (name, ' '.join(toks))
    pre = {'z': 'Z', 'q': 'Q', 'f': 'F'}
    dist = {}; al = {}
    nxt = {'z': 1, 'q': 1, 'f': 1}
    for i, ch in enumerate(sig):
        t = TYPES.get(ch)
        if not t: continue
        dist[i] = '%s%d' % (pre[t], nxt[t]); nxt[t] += 1
    for i, ch in enumerate(sig):
        t = TYPES.get(ch)
        if not t: continue
        if i in cls_of: al[i] = '%s%d' % (pre[t], 20 + cls_of[i])
        else: al[i] = '%s%d' % (pre[t], nxt[t]); nxt[t] += 1
    def shrinks(varmap):
        out = []
        for i, ch in enumerate(sig):
            if ch == 'Z': out.append('shrink %s' % varmap[i])
            elif ch == 'Q': out += ['shrink N%s' % varmap[i][1:], 'shrink D%s' % varmap[i][1:]]
        return out
    seed_cmd = ['c gmp_randseed_ui R0 #%d' % (sd & 0xffffffff)] if 'R' in sig else []
    def lower(varmap):
        return ['c mpf_set_prec_raw %s #%d' % (x, praw) for x in sorted({varmap[i] for i in fpos})] if praw else []
    def restore(varmap):
        return ['c mpf_set_prec_raw %s #%d' % (x, prec) for x in sorted({varmap[i] for i in fpos})] if praw else []
    c1 = setup(dist) + shrinks(dist) + seed_cmd + lower(dist); i1 = len(c1)
    c2 = restore(dist) + setup(al) + shrinks(al) + seed_cmd + lower(al); i2 = len(c2)
    cmds = c1 + [call(dist)] + c2 + [call(al)] + restore(al)
    patkey = '|'.join('='.join(('w' if sig[p_].isupper() else 'r') + str(p_) for p_ in c) for c in pat)
    def check(rep, name=name, patkey=patkey):
        a, _ = split_reply(rep[i1]); b, _ = split_reply(rep[i1 + 1 + i2])
        if a != b and praw and len(a) == len(b):
            # over-long aliased operand: shortcuts such as x + 0 or the in-place forms legitimately keep more low limbs than a distinct
            # destination of the lowered precision receives; accept exactly that (same exponent and sign, distinct result = leading limbs)
            ok = True
            for x, y in zip(a, b):
                if x == y: continue
                if not (x.startswith('F') and y.startswith('F')): ok = False; break
                px, ex, sx, mx = x[1:].split(','); py, ey, sy, my = y[1:].split(',')
                if not (ex == ey and (int(sx) < 0) == (int(sy) < 0) and abs(int(sy)) > abs(int(sx)) and my.startswith(mx)): ok = False; break
            if ok: return None
        if a != b:
            return [('%s:aliased-differs-from-distinct:%s' % (name, patkey), 'args=%s distinct=%s aliased=%s' % ([str(x)[:50] for x in v], [t[:60] for t in a], [t[:60] for t in b]))]
    szs = tuple(min(gen.nlimbs(x), 48) for x in v if isinstance(x, int))
    return Case(cmds, check, 2, (name, patkey, szs[:3], bool(praw)))
