"""C05 outputs may alias inputs; input-only operands are never modified."""
import random, itertools, math
from fractions import Fraction
from runner import Case
from rpc import hx, I, split_reply
import gen, api
from sweeputil import sweep_case

PID = 'C05'
LEVEL = 'exploration'
VARIANTS = {'quick': ['asan', 'asan-tdbg'], 'thorough': ['asan', 'asan-tdbg', 'plain']}
RULE = ('every mpz/mpq/mpf function of drv/api.inc with an output and a same-typed input x every partition of its same-typed arguments into '
        'classes of identical variables in which no two outputs coincide (the manual\'s exclusions: q==r, rop1==rop2, g/s/t, fn==fnsub1) x K input '
        'tuples from the hostile value classes within the function\'s documented domain; the aliased destination is pre-shrunk to the smallest legal '
        'allocation so it must be reallocated while it is a source; the call with distinct variables holding the same values is the reference, and '
        'return value and every output must be identical (mpf: same precisions, bit-identical); the driver\'s digest monitor checks that read-only '
        'operands are unchanged in both runs; mpn in-place/offset overlaps by the kernel sweeps. distinct = (function, partition, size buckets)')
ASSUMPTIONS = ['the distinct-variable call is the reference (its value is judged by the other properties\' oracles)',
               'asan-tdbg turns a use of a source after the destination was reallocated into a heap-use-after-free']

TYPES = {'Z': 'z', 'z': 'z', 'Q': 'q', 'q': 'q', 'F': 'f', 'f': 'f'}

def partitions(items):
    if not items: yield []; return
    first, rest = items[0], items[1:]
    for p in partitions(rest):
        yield [[first]] + p
        for i in range(len(p)):
            yield p[:i] + [[first] + p[i]] + p[i + 1:]

def alias_patterns(sig):
    """list of partitions (as tuple of tuples of arg positions) with at least one non-singleton class"""
    out = []
    for ty in 'zqf':
        pos = [i for i, ch in enumerate(sig) if TYPES.get(ch) == ty]
        W = {i for i in pos if sig[i].isupper()}
        if len(pos) < 2: continue
        for p in partitions(pos):
            if all(len(c) == 1 for c in p): continue
            if any(len(W & set(c)) > 1 for c in p): continue
            out.append(tuple(tuple(sorted(c)) for c in p if len(c) > 1))
    return out

TARGETS = []
for name, (ret, sig) in sorted(api.FNS.items()):
    if not api.is_generic(name): continue
    if any(ch in sig for ch in 'IJKwvC') and name not in (): continue
    pats = alias_patterns(sig)
    for p in pats: TARGETS.append((name, p))

def valid(name, sig, v):
    zi = [i for i, ch in enumerate(sig) if ch == 'z']; ui = [i for i, ch in enumerate(sig) if ch == 'u']
    qi = [i for i, ch in enumerate(sig) if ch == 'q']; fi = [i for i, ch in enumerate(sig) if ch == 'f']
    if name in api.DIVZ: return v[zi[-1]] != 0
    if name in api.DIVUI: return v[ui[-1]] != 0
    if name == 'mpz_divexact': return v[zi[1]] != 0 and v[zi[0]] % v[zi[1]] == 0
    if name == 'mpz_divexact_ui': return v[ui[0]] != 0 and v[zi[0]] % v[ui[0]] == 0
    if name == 'mpz_powm': return v[zi[2]] != 0 and 0 <= v[zi[1]] < (1 << 200) and abs(v[zi[2]]).bit_length() < 700
    if name == 'mpz_powm_ui': return v[zi[-1]] != 0
    if name == 'mpz_invert': return abs(v[zi[1]]) > 1
    if name in ('mpz_sqrt', 'mpz_sqrtrem'): return v[zi[0]] >= 0
    if name in ('mpz_root', 'mpz_nthroot', 'mpz_rootrem'): return v[ui[0]] >= 1 and (v[ui[0]] % 2 == 1 or v[zi[0]] >= 0)
    if name == 'mpz_remove': return v[zi[1]] >= 2
    if name == 'mpz_urandomm': return v[zi[0]] > 0
    if name in ('mpz_nextprime', 'mpz_next_prime_candidate'): return 0 <= v[zi[0]] < (1 << 220)
    if name == 'mpq_div': return v[qi[1]] != 0
    if name == 'mpq_inv': return v[qi[0]] != 0
    if name == 'mpq_set_den': return v[zi[0]] != 0
    if name == 'mpf_div': return v[fi[1]][0] != 0
    if name in ('mpf_ui_div', 'mpf_reldiff'): return v[fi[0]][0] != 0
    if name == 'mpf_sqrt': return v[fi[0]][0] >= 0
    return True

def specs(rng, tier, wid, nw, env):
    q = tier == 'quick'
    K = 12 if q else 200
    k = 0
    for (name, pat) in TARGETS:
        for j in range(K):
            k += 1
            if k % nw == wid: yield ('alias', name, [list(c) for c in pat], rng.getrandbits(48))
    for grp in ('aors', 'logic', 'mul1', 'div1'):
        for n in range(1, 33 if q else 200):
            k += 1
            if k % nw == wid: yield ('sweep', grp, n, n, rng.getrandbits(40))

def build(spec, env):
    if spec[0] == 'sweep': return sweep_case(spec[1], spec[2], spec[3], spec[4], 'C05')
    _, name, pat, sd = spec
    r = random.Random(sd); ret, sig = api.FNS[name]
    cls_of = {}
    for ci, c in enumerate(pat):
        for p_ in c: cls_of[p_] = ci
    for attempt in range(30):
        v = api.gen_args(r, name, maxl=r.choice([2, 6, 6, 40]))
        v = api.fix(r, name, v)
        if v is None: return None
        # unify classes: value of the first read-only member (or of the first member)
        for c in pat:
            src = next((p_ for p_ in c if sig[p_].islower()), c[0])
            for p_ in c: v[p_] = v[src]
        # W arguments that are in/out are plain mpz/mpq/mpf values already
        if valid(name, sig, v): break
    else:
        return None
    prec = r.choice(api.PRECS)
    def setup(varmap):
        cmds = []; done = set()
        for i, ch in enumerate(sig):
            var = varmap.get(i)
            if var is None or var in done: continue
            done.add(var)
            if ch in 'Zz': cmds.append('z %s %s' % (var, hx(v[i])))
            elif ch in 'Qq': cmds.append('q %s %s %s' % (var, hx(v[i].numerator), hx(v[i].denominator)))
            elif ch in 'Ff': cmds.append(api.fcmd(var, prec, v[i]))
        return cmds
    def call(varmap):
        toks = []
        for i, ch in enumerate(sig):
            if ch in 'ZzQqFf': toks.append(varmap[i])
            elif ch == 'R': toks.append('R0')
            else: toks.append(api.tok(ch, name, v[i]))
        return 'c %s %s' % (name, ' '.join(toks))
    pre = {'z': 'Z', 'q': 'Q', 'f': 'F'}
    dist = {}; al = {}
    nxt = {'z': 1, 'q': 1, 'f': 1}
    for i, ch in enumerate(sig):
        t = TYPES.get(ch)
        if not t: continue
        dist[i] = '%s%d' % (pre[t], nxt[t]); nxt[t] += 1
    for i, ch in enumerate(sig):
        t = TYPES.get(ch)
        if not t: continue
        if i in cls_of: al[i] = '%s%d' % (pre[t], 20 + cls_of[i])
        else: al[i] = '%s%d' % (pre[t], nxt[t]); nxt[t] += 1
    def shrinks(varmap):
        out = []
        for i, ch in enumerate(sig):
            if ch == 'Z': out.append('shrink %s' % varmap[i])
            elif ch == 'Q': out += ['shrink N%s' % varmap[i][1:], 'shrink D%s' % varmap[i][1:]]
        return out
    seed_cmd = ['c gmp_randseed_ui R0 #%d' % (sd & 0xffffffff)] if 'R' in sig else []
    c1 = setup(dist) + shrinks(dist) + seed_cmd; i1 = len(c1)
    c2 = setup(al) + shrinks(al) + seed_cmd; i2 = len(c2)
    cmds = c1 + [call(dist)] + c2 + [call(al)]
    patkey = '|'.join('='.join(('w' if sig[p_].isupper() else 'r') + str(p_) for p_ in c) for c in pat)
    def check(rep, name=name, patkey=patkey):
        a, _ = split_reply(rep[i1]); b, _ = split_reply(rep[i1 + 1 + i2])
        if a != b:
            return [('%s:aliased-differs-from-distinct:%s' % (name, patkey), 'args=%s distinct=%s aliased=%s' % ([str(x)[:50] for x in v], [t[:60] for t in a], [t[:60] for t in b]))]
    szs = tuple(min(gen.nlimbs(x), 48) for x in v if isinstance(x, int))
    return Case(cmds, check, 2, (name, patkey, szs[:3]))
