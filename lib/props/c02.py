"""C02 division: exact quotient/remainder with documented rounding."""
import random
from runner import Case
from sweeputil import sweep_case
from rpc import hx, I, split_reply
import gen, models
from gen import B, M

PID = 'C02'
LEVEL = 'exploration'
VARIANTS = {'quick': ['asan', 'plain'], 'thorough': ['asan', 'plain', 'asan-tdbg']}
RULE = ('(nn,dn) grid 1..14, sizes around every division threshold of the variant\'s gmp-mparam.h (sb/dc/inv, q and qr, '
        'divappr, mod_1_k, hensel), short-quotient shapes; operands from adversarial constructors (n=q*d+r with extreme q and r, '
        'dividend leading limbs equal to the divisor\'s, divisor top limbs from {B/2,B/2+1,B-2,B-1}x{0,1,B-1} and their '
        'unnormalised shifts, powers of B and 2 +-1, near-multiples for the quotient_too_large path); all mpz rounding families '
        'x four sign combinations, _ui and _2exp forms, divexact/divisible/congruent incl. d=0; judged by Python floor divmod. '
        'distinct = (function group, constructor, size buckets, signs); trivial = |n|<|d| with d of one limb or n=0')
ASSUMPTIONS = ['Python divmod is exact', 'division by zero outside divisible/congruent is not generated (undefined)',
               'INV_DIVAPPR_Q_THRESHOLD (14326 limbs) is only crossed in the thorough tier']

CTORS = ['rand', 'qdr', 'leadeq', 'top2', 'pow', 'nearmul', 'special']

def szb(n):
    return n if n < 20 else 20 + n.bit_length() * 4 + ((n >> (n.bit_length() - 3)) & 3)

def make_nd(r, nn, dn, ctor):
    """(n, d) with d of exactly dn limbs and n of at most nn limbs, n >= 0, d > 0"""
    if ctor == 'rand':
        d = gen.nat(r, dn); n = gen.nat(r, nn)
    elif ctor == 'special':
        d = gen.nat(r, dn, 'special'); n = gen.nat(r, nn, r.choice(['special', 'ones', 'runs']))
    elif ctor == 'top2':
        d = gen.nat(r, dn, r.choice(['rand', 'special']))
        hi = r.choice([B >> 1, (B >> 1) + 1, B - 2, B - 1]); lo = r.choice([0, 1, B - 1, r.getrandbits(64)])
        if dn >= 2:
            d = (d & ((1 << (64 * (dn - 2))) - 1)) | (lo << (64 * (dn - 2))) | (hi << (64 * (dn - 1)))
        else:
            d = hi
        if r.random() < 0.5:
            s = r.randint(1, 63); d >>= s
            if d >> (64 * (dn - 1)) == 0: d |= 1 << (64 * (dn - 1))
        n = gen.nat(r, nn, r.choice(['special', 'ones', 'rand', 'runs']))
        if r.random() < 0.5 and nn >= dn:
            q = gen.nat(r, nn - dn + 1, r.choice(['special', 'ones'])); n = q * d + r.choice([0, 1, d - 1, d - 2, r.randrange(d)])
    elif ctor == 'qdr':
        d = gen.nat(r, dn)
        qn = max(1, nn - dn + r.choice([0, 1]))
        qc = r.choice(['ones', 'alt', 'zeroish', 'special', 'rand'])
        if qc == 'alt': q = sum((M if i % 2 == 0 else 0) << (64 * i) for i in range(qn))
        elif qc == 'zeroish': q = 1 << (64 * (qn - 1))
        else: q = gen.nat(r, qn, qc if qc != 'zeroish' else 'bit')
        rem = r.choice([0, 1, d - 1, max(d - 2, 0), r.randrange(d)])
        n = q * d + rem
    elif ctor == 'leadeq':
        d = gen.nat(r, dn); j = max(0, nn - dn); c = r.choice([0, 1, 2, r.getrandbits(64), r.getrandbits(r.randint(1, max(1, 64 * j)))])
        n = (d << (64 * j)) + r.choice([-1, 1]) * c
        if j >= 1 and r.random() < 0.5:
            # several leading limbs equal but then smaller
            n = ((d >> 64) << (64 * (j + 1))) | r.getrandbits(64 * (j + 1)) if dn > 1 else n
    elif ctor == 'pow':
        k = 64 * (dn - 1) + r.choice([0, 1, 31, 32, 63])
        d = (1 << k) + r.choice([-1, 0, 0, 1])
        if d <= 0 or gen.nlimbs(d) != dn: d = 1 << (64 * (dn - 1))
        n = gen.nat(r, nn, r.choice(['ones', 'rand', 'bit', 'runs']))
    elif ctor == 'nearexact':
        # n = q*d + {0,1,2}: the approximate quotient of the precomputed-inverse division lands within 2 ulp of an integer, which is the
        # only way into mpn_inv_divappr_q_n's 'multiply out' correction (probability 2/B on random data; F1 lived there)
        d = gen.nat(r, dn, r.choice(['rand', 'rand', 'special']))
        q = gen.nat(r, max(1, nn - dn + r.choice([0, 0, 1])), r.choice(['rand', 'ones', 'special', 'rand']))
        n = q * d + r.choice([0, 0, 1, 2])
    else:  # nearmul: n just below / above q*d
        d = gen.nat(r, dn, r.choice(['rand', 'special', 'topmax', 'tophalf']))
        q = gen.nat(r, max(1, nn - dn + 1), r.choice(['rand', 'ones', 'special']))
        n = q * d + r.choice([-2, -1, 0, 1, 2, d - 1, -(d - 1)])
    if n < 0: n = 0
    if gen.nlimbs(n) > nn: n &= (1 << (64 * nn)) - 1
    if d <= 0: d = 1
    return n, d

def sizes(th, tier):
    q = tier == 'quick'
    S = []
    for dn in range(1, 15):
        for nn in range(dn, 15):
            for c in CTORS: S.append((nn, dn, c))
    ths = sorted({th[k] for k in ('DC_DIV_QR_THRESHOLD', 'DC_DIV_Q_THRESHOLD', 'DC_DIVAPPR_Q_THRESHOLD', 'INV_DIVAPPR_Q_N_THRESHOLD',
                                  'DC_BDIV_QR_THRESHOLD', 'DC_BDIV_Q_THRESHOLD') if k in th and th[k] < 400})
    ar = gen.around(ths, 2)
    # long quotient: dn around thresholds, qn assorted; and qn around thresholds
    for dn in ar:
        for qn in [1, 2, 3, dn // 2, dn - 1, dn, dn + 1, 2 * dn, 2 * dn + 1, 3 * dn + 5]:
            if qn < 1: continue
            for c in (r for r in CTORS if not q or r in ('qdr', 'top2', 'nearmul', 'rand')): S.append((dn + qn - 1, dn, c))
    for qn in ar:
        for dn in [qn + 1, qn + 2, 2 * qn, 3 * qn + 7, 300]:
            for c in ('nearmul', 'top2', 'qdr', 'leadeq'): S.append((dn + qn - 1, dn, c))
    # short quotient against long divisor (quotient_too_large path)
    for qn in range(1, 7):
        for dn in ([3, 4, 7, 20, 50, 51, 120, 300] if q else list(range(3, 60)) + [120, 300, 700]):
            if dn > qn:
                for c in ('nearmul', 'top2', 'leadeq'): S.append((dn + qn - 1, dn, c))
    # ladder
    for dn in gen.ladder(15, 400 if q else 1400, 1.6 if q else 1.25):
        for nn in {dn, dn + 1, dn + dn // 2, 2 * dn - 1, 2 * dn, 2 * dn + 1, 3 * dn}:
            for c in (('rand', 'nearmul') if q else CTORS): S.append((nn, dn, c))
    # precomputed-inverse division
    IQR = th.get('INV_DIV_QR_THRESHOLD', 1589); IQ = th.get('INV_DIV_Q_THRESHOLD', 998)
    for t in (IQ, IQR):
        if t > 6000: continue
        for dn in ([t, t + 1] if q else [t - 1, t, t + 1, t + 50, int(t * 1.5)]):
            for nn in ([2 * t, 2 * t + 1, 2 * dn + 3] if q else [2 * t - 1, 2 * t, 2 * t + 1, 2 * dn + 1, 3 * dn, 2 * dn - 1 + 7]):
                if nn < dn: continue
                for c in (('nearmul', 'ones') if q else ('nearmul', 'ones', 'top2', 'qdr', 'rand', 'leadeq')): S.append((nn, dn, c))
        # short quotient with qn >= threshold (inv_div_qr_n / inv_divappr)
        for qn in ([t, t + 1] if q else [t - 1, t, t + 1, t + 30]):
            for dn in [qn + 1, qn + 2, 2 * qn]:
                for c in (('nearmul', 'ones') if q else ('nearmul', 'ones', 'top2', 'rand')): S.append((dn + qn - 1, dn, c))
    if IQ <= 6000:
        for dn in ([IQ, IQ + 12] if q else [IQ, IQ + 1, IQ + 12, IQ + 300, 2 * IQ]):
            for off in (0, 1, 2, 3, 5, 40, dn):
                for rep in range(2 if q else 4): S.append((2 * dn + off, dn, 'nearexact'))
    if not q and 'INV_DIVAPPR_Q_THRESHOLD' in th and th['INV_DIVAPPR_Q_THRESHOLD'] < 20000:
        t = th['INV_DIVAPPR_Q_THRESHOLD']
        for qn in (t - 1, t + 1, t + 2):
            for dn in (qn + 1, qn + 3):
                for c in ('nearmul', 'ones', 'rand'): S.append((dn + qn - 1, dn, c))
    return S

UIS = [1, 2, 3, 5, 7, 10, 255, 256, (1 << 32) - 1, 1 << 32, (1 << 32) + 1, (1 << 63) - 1, 1 << 63, (1 << 63) + 1, M - 1, M]

def specs(rng, tier, wid, nw, env):
    # in-driver kernel sweeps against the limb reference: divrem_1/mod_1/divexact_by3c family and the euclidean/hensel single-limb kernels
    k_ = 0
    for grp, top in (('div1', 40 if tier == 'quick' else 300), ('kern2', 32 if tier == 'quick' else 300)):
        for lo in range(1, top + 1, 4):
            k_ += 1
            if k_ % nw == wid: yield ('sweep', grp, lo, min(lo + 3, top), rng.getrandbits(40))
    S = sizes(env.th, tier)
    S.sort(key=lambda s: -s[0])
    for i, (nn, dn, c) in enumerate(S):
        if i % nw != wid: continue
        sd = rng.getrandbits(48)
        if c == 'ones': c = 'special'
        yield ('mpn', nn, dn, c, sd)
        if nn <= 3500 or tier != 'quick':
            yield ('mpz', nn, dn, c, rng.randint(0, 3), rng.getrandbits(48))
            yield ('exact', nn, dn, c, rng.randint(0, 3), rng.getrandbits(48))
    N = 4000 if tier == 'quick' else 400000
    for i in range(N):
        c = rng.random()
        if c < 0.25:
            dn = rng.choice([1, 1, 2, 2, 3, 4, 5, 8, 13, 30]); nn = dn + rng.choice([0, 0, 1, 1, 2, 3, 5, 9, 20])
            yield ('mpz', nn, dn, rng.choice(CTORS), rng.randint(0, 3), rng.getrandbits(48))
        elif c < 0.45:
            yield ('ui', rng.choice([0, 1, 1, 2, 3, 5, 6, 7, 8, 12, 13, 14, 20, 31, 40, 70]), rng.choice(['rand', 'ones', 'special', 'runs', 'mult']), rng.randint(0, 1), rng.getrandbits(48))
        elif c < 0.6:
            yield ('2exp', rng.choice([0, 1, 2, 3, 4, 9]), rng.choice(['rand', 'ones', 'bit', 'lowzero', 'runs']), rng.randint(0, 1), rng.getrandbits(48))
        elif c < 0.78:
            yield ('div1', rng.choice(list(range(1, 41)) + [63, 64, 65, 130]), rng.choice(['one', 'two', 'three', 'pow2', 'pow2m1', 'pow2p1', 'half', 'halfp1', 'max', 'odd', 'even']),
                   rng.choice([0, 0, 0, 1, 2, 5]), rng.choice(['rand', 'ones', 'special', 'runs']), rng.getrandbits(48))
        elif c < 0.9:
            dn = rng.choice([1, 2, 2, 3, 4, 7, 20, 49, 50, 51, 60]); nn = dn + rng.choice([0, 1, 2, 5, 30, 60])
            yield ('divrem', nn, dn, rng.choice([0, 0, 0, 1, 3]), rng.choice(['rand', 'qdr', 'leadeq', 'top2', 'nearmul']), rng.getrandbits(48))
        else:
            yield ('cong', rng.randint(0, 6), rng.randint(0, 3), rng.choice(['eq', 'rand', 'mult', 'zero-d']), rng.randint(0, 7), rng.getrandbits(48))

def build(spec, env):
    kind = spec[0]; r = random.Random(spec[-1])
    if kind == 'sweep': return sweep_case(spec[1], spec[2], spec[3], spec[4], 'C02')
    if kind == 'mpn':
        _, nn, dn, ctor, _s = spec
        n, d = make_nd(r, nn, dn, ctor)
        # mpn_tdiv_qr requires the top limb of d non-zero only; mpn_tdiv_q additionally N >= D
        qn = nn - dn + 1
        cmds = ['l 0 %d %s' % (nn, hx(n)), 'l 1 %d %s' % (dn, hx(d)),
                'c mpn_tdiv_qr L2:%d L3:%d #0 L0 #%d L1 #%d' % (qn, dn, nn, dn)]
        doq = n >= d and (n >> (64 * (nn - 1))) != 0
        cmds.append('c mpn_tdiv_q L4:%d L0 #%d L1 #%d' % (qn, nn, dn) if doq else 'ping')
        def check(rep, n=n, d=d, nn=nn, dn=dn, ctor=ctor, doq=doq):
            out = []
            v, _ = split_reply(rep[2]); q, rem = divmod(n, d)
            gq = I(v[0].split('=')[1]); gr = I(v[1].split('=')[1])
            if gq != q or gr != rem: out.append(('mpn_tdiv_qr:wrong:%s' % ctor, 'nn=%d dn=%d q_ok=%s r_ok=%s' % (nn, dn, gq == q, gr == rem)))
            if doq:
                v, _ = split_reply(rep[3])
                if I(v[0].split('=')[1]) != q: out.append(('mpn_tdiv_q:wrong:%s' % ctor, 'nn=%d dn=%d' % (nn, dn)))
            return out
        return Case(cmds, check, 2 if doq else 1, ('mpn', szb(nn - dn), szb(dn), ctor), trivial=(n < d))
    if kind == 'mpz':
        _, nn, dn, ctor, sg, _s = spec
        n, d = make_nd(r, nn, dn, ctor)
        if sg & 1: n = -n
        if sg & 2: d = -d
        fns = [('mpz_cdiv_q', 'q', 'c'), ('mpz_cdiv_r', 'r', 'c'), ('mpz_cdiv_qr', 'qr', 'c'), ('mpz_fdiv_q', 'q', 'f'), ('mpz_fdiv_r', 'r', 'f'),
               ('mpz_fdiv_qr', 'qr', 'f'), ('mpz_tdiv_q', 'q', 't'), ('mpz_tdiv_r', 'r', 't'), ('mpz_tdiv_qr', 'qr', 't'), ('mpz_mod', 'r', 'm')]
        cmds = ['z Z1 %s' % hx(n), 'z Z2 %s' % hx(d)]
        for fn, what, _m in fns:
            if r.random() < 0.3: cmds.append('shrink Z3')
            else: cmds.append('ping')
            cmds.append('c %s %s Z1 Z2' % (fn, 'Z3 Z4' if what == 'qr' else 'Z3'))
        cmds.append('c mpz_divisible_p Z1 Z2')
        def check(rep, n=n, d=d, sg=sg, ctor=ctor):
            out = []
            E = {'c': models.cdiv(n, d), 'f': models.fdiv(n, d), 't': models.tdiv(n, d), 'm': (None, n % abs(d))}
            for i, (fn, what, m) in enumerate(fns):
                v, _ = split_reply(rep[3 + 2 * i]); q, rem = E[m]
                got = [I(x) for x in v]
                exp = [q] if what == 'q' else [rem] if what == 'r' else [q, rem]
                if got != exp: out.append(('%s:wrong:sg%d' % (fn, sg), 'ctor=%s n=%s d=%s got=%s exp=%s' % (ctor, hx(n)[:50], hx(d)[:50], [hx(g)[:40] for g in got], [hx(g)[:40] for g in exp])))
            v, _ = split_reply(rep[2 + 2 * len(fns)])
            if (int(v[0]) != 0) != (n % d == 0): out.append(('mpz_divisible_p:wrong', 'n=%s d=%s' % (hx(n)[:50], hx(d)[:50])))
            return out
        return Case(cmds, check, len(fns) + 1, ('mpz', szb(nn - dn), szb(dn), ctor, sg), trivial=(n == 0))
    if kind == 'exact':
        _, nn, dn, ctor, sg, _s = spec
        n0, d = make_nd(r, nn, dn, ctor)
        q = n0 // d
        if r.random() < 0.3: q = gen.nat(r, max(1, nn - dn + 1), r.choice(['ones', 'special', 'lowzero', 'bit']))
        if r.random() < 0.3: d = (d << r.randint(1, 130))    # low zero bits/limbs in the divisor
        if q == 0: q = 1
        n = q * d
        sq = -1 if sg & 1 else 1; sd = -1 if sg & 2 else 1
        cmds = ['z Z1 %s' % hx(n * sq), 'z Z2 %s' % hx(d * sd), 'c mpz_divexact Z3 Z1 Z2',
                'l 0 %d %s' % (gen.nlimbs(n), hx(n)), 'l 1 %d %s' % (gen.nlimbs(d), hx(d)),
                'c mpn_divexact L2:%d L0 #%d L1 #%d' % (gen.nlimbs(n) - gen.nlimbs(d) + 1, gen.nlimbs(n), gen.nlimbs(d))]
        def check(rep, q=q, sq=sq, sd=sd, n=n, d=d):
            out = []
            v, _ = split_reply(rep[2])
            if I(v[0]) != q * sq * sd: out.append(('mpz_divexact:wrong', 'nn=%d dn=%d' % (gen.nlimbs(n), gen.nlimbs(d))))
            v, _ = split_reply(rep[5])
            if I(v[0].split('=')[1]) != q: out.append(('mpn_divexact:wrong', 'nn=%d dn=%d' % (gen.nlimbs(n), gen.nlimbs(d))))
            return out
        return Case(cmds, check, 2, ('exact', szb(gen.nlimbs(q)), szb(gen.nlimbs(d)), ctor, sg))
    if kind == 'ui':
        _, nn, cls, neg, _s = spec
        d = r.choice(UIS) if r.random() < 0.6 else r.getrandbits(r.randint(1, 64)) or 1
        n = gen.nat(r, nn, cls if cls != 'mult' else None)
        if cls == 'mult': n = n * d + r.choice([0, 0, 1, d - 1])
        if neg: n = -n
        fns = [('mpz_cdiv_q_ui', 'q', 'c'), ('mpz_cdiv_r_ui', 'r', 'c'), ('mpz_cdiv_qr_ui', 'qr', 'c'), ('mpz_cdiv_ui', '', 'c'),
               ('mpz_fdiv_q_ui', 'q', 'f'), ('mpz_fdiv_r_ui', 'r', 'f'), ('mpz_fdiv_qr_ui', 'qr', 'f'), ('mpz_fdiv_ui', '', 'f'),
               ('mpz_tdiv_q_ui', 'q', 't'), ('mpz_tdiv_r_ui', 'r', 't'), ('mpz_tdiv_qr_ui', 'qr', 't'), ('mpz_tdiv_ui', '', 't'), ('mpz_mod_ui', 'r', 'f')]
        cmds = ['z Z1 %s' % hx(n)]
        for fn, what, m in fns:
            out = {'q': 'Z3 ', 'r': 'Z3 ', 'qr': 'Z3 Z4 ', '': ''}[what]
            cmds.append('c %s %sZ1 #%d' % (fn, out, d))
        cmds.append('c mpz_divisible_ui_p Z1 #%d' % d)
        ex = n % d == 0
        cmds.append('c mpz_divexact_ui Z3 Z1 #%d' % d if ex else 'ping')
        c2 = r.choice([0, 1, d, d - 1, n % d, r.getrandbits(64), (n % d + 1) % (1 << 64)])
        cmds.append('c mpz_congruent_ui_p Z1 #%d #%d' % (c2, d))
        def check(rep, n=n, d=d, ex=ex, c2=c2):
            out = []
            E = {'c': models.cdiv(n, d), 'f': models.fdiv(n, d), 't': models.tdiv(n, d)}
            for i, (fn, what, m) in enumerate(fns):
                v, _ = split_reply(rep[1 + i]); q, rem = E[m]
                ret = int(v[0]); got = [I(x) for x in v[1:]]
                exp = {'q': [q], 'r': [rem], 'qr': [q, rem], '': []}[what]
                if ret != abs(rem) or got != exp: out.append(('%s:wrong' % fn, 'n=%s d=%d ret=%d got=%s exp_r=%d' % (hx(n)[:50], d, ret, v[1:], rem)))
            v, _ = split_reply(rep[1 + len(fns)])
            if (int(v[0]) != 0) != ex: out.append(('mpz_divisible_ui_p:wrong', 'n=%s d=%d' % (hx(n)[:50], d)))
            if ex:
                v, _ = split_reply(rep[2 + len(fns)])
                if I(v[0]) != n // d: out.append(('mpz_divexact_ui:wrong', 'n=%s d=%d' % (hx(n)[:50], d)))
            v, _ = split_reply(rep[3 + len(fns)])
            if (int(v[0]) != 0) != ((n - c2) % d == 0): out.append(('mpz_congruent_ui_p:wrong', 'n=%s c=%d d=%d' % (hx(n)[:50], c2, d)))
            return out
        return Case(cmds, check, len(fns) + 3, ('ui', szb(nn), cls, neg, d if d < 4 else d.bit_length() + 10), trivial=(n == 0))
    if kind == '2exp':
        _, nn, cls, neg, _s = spec
        n = gen.nat(r, nn, cls) * (-1 if neg else 1)
        bl = abs(n).bit_length()
        b = r.choice([0, 1, 63, 64, 65, 127, 128, 129, max(bl - 1, 0), bl, bl + 1, bl + 64, r.randint(0, bl + 70), 64 * r.randint(0, nn + 1), 100000])
        fns = [('mpz_cdiv_q_2exp', 'q', 'c'), ('mpz_cdiv_r_2exp', 'r', 'c'), ('mpz_fdiv_q_2exp', 'q', 'f'), ('mpz_fdiv_r_2exp', 'r', 'f'),
               ('mpz_tdiv_q_2exp', 'q', 't'), ('mpz_tdiv_r_2exp', 'r', 't')]
        cmds = ['z Z1 %s' % hx(n)] + ['c %s Z3 Z1 #%d' % (fn, b) for fn, _w, _m in fns]
        cmds.append('c mpz_divisible_2exp_p Z1 #%d' % b)
        c2 = r.choice([n, n + (1 << b), n - (3 << b), n + 1, -n, n ^ (1 << max(b - 1, 0)), gen.val(r, 4)])
        cmds += ['z Z2 %s' % hx(c2), 'c mpz_congruent_2exp_p Z1 Z2 #%d' % b]
        def check(rep, n=n, b=b, c2=c2):
            out = []; d = 1 << b
            E = {'c': models.cdiv(n, d), 'f': models.fdiv(n, d), 't': models.tdiv(n, d)}
            for i, (fn, what, m) in enumerate(fns):
                v, _ = split_reply(rep[1 + i]); q, rem = E[m]
                if I(v[0]) != (q if what == 'q' else rem): out.append(('%s:wrong' % fn, 'n=%s b=%d got=%s' % (hx(n)[:60], b, v[0][:60])))
            v, _ = split_reply(rep[1 + len(fns)])
            if (int(v[0]) != 0) != (n % d == 0): out.append(('mpz_divisible_2exp_p:wrong', 'n=%s b=%d' % (hx(n)[:60], b)))
            v, _ = split_reply(rep[3 + len(fns)])
            if (int(v[0]) != 0) != ((n - c2) % d == 0): out.append(('mpz_congruent_2exp_p:wrong', 'n=%s c=%s b=%d' % (hx(n)[:60], hx(c2)[:60], b)))
            return out
        return Case(cmds, check, len(fns) + 2, ('2exp', szb(nn), cls, neg, b if b < 3 else (b % 64 in (0, 1, 63), b > bl, b == bl)), trivial=(n == 0))
    if kind == 'div1':
        _, nn, dcls, qxn, cls, _s = spec
        k = r.randint(1, 63)
        d = {'one': 1, 'two': 2, 'three': 3, 'pow2': 1 << k, 'pow2m1': (1 << (k + 1)) - 1, 'pow2p1': (1 << k) + 1, 'half': B >> 1, 'halfp1': (B >> 1) + 1,
             'max': M, 'odd': r.getrandbits(64) | 1, 'even': (r.getrandbits(64) & ~1) or 2}[dcls]
        n = gen.nat(r, nn, cls)
        cmds = ['l 0 %d %s' % (nn, hx(n)), 'c mpn_divrem_1 L1:%d #%d L0 #%d #%d' % (nn + qxn, qxn, nn, d), 'c mpn_mod_1 L0 #%d #%d' % (nn, d)]
        ci = r.randint(0, 2)
        cmds.append('c mpn_divexact_by3c L2:%d L0 #%d #%d' % (nn, nn, ci))
        m = n * d
        ex_ok = gen.nlimbs(m) <= nn + 1
        cmds += ['l 3 %d %s' % (nn + 1, hx(m)), 'c mpn_divexact_1 L4:%d L3 #%d #%d' % (nn + 1, nn + 1, d)]
        # in-place divrem_1 (identical operands are allowed)
        cmds += ['l 5 %d %s' % (nn, hx(n)), 'c mpn_divrem_1 L5 #0 L5 #%d #%d' % (nn, d)]
        def check(rep, n=n, d=d, nn=nn, qxn=qxn, ci=ci):
            out = []
            v, _ = split_reply(rep[1]); q, rem = divmod(n << (64 * qxn), d)
            if int(v[0]) != rem or I(v[1].split('=')[1]) != q: out.append(('mpn_divrem_1:wrong', 'nn=%d qxn=%d d=%#x' % (nn, qxn, d)))
            v, _ = split_reply(rep[2])
            if int(v[0]) != n % d: out.append(('mpn_mod_1:wrong', 'nn=%d d=%#x n=%s' % (nn, d, hx(n)[:80])))
            v, _ = split_reply(rep[3]); c = int(v[0]); got = I(v[1].split('=')[1])
            # c*B^n + a - ci = 3*q
            if c not in (0, 1, 2) or (c << (64 * nn)) + n - ci != 3 * got: out.append(('mpn_divexact_by3c:wrong', 'nn=%d ci=%d c=%d' % (nn, ci, c)))
            v, _ = split_reply(rep[5])
            if I(v[0].split('=')[1]) != n: out.append(('mpn_divexact_1:wrong', 'nn=%d d=%#x' % (nn + 1, d)))
            v, _ = split_reply(rep[7]); q, rem = divmod(n, d)
            if int(v[0]) != rem or I(v[1].split('=')[1]) != q: out.append(('mpn_divrem_1:inplace-wrong', 'nn=%d d=%#x' % (nn, d)))
            return out
        return Case(cmds, check, 5, ('div1', szb(nn), dcls, qxn, cls))
    if kind == 'divrem':
        _, nn, dn, qxn, ctor, _s = spec
        n, d = make_nd(r, nn, dn, ctor)
        # most significant bit of the divisor must be set
        sh = 64 * dn - d.bit_length(); d <<= sh
        n &= (1 << (64 * nn)) - 1
        cmds = ['l 0 %d %s' % (nn, hx(n)), 'l 1 %d %s' % (dn, hx(d)), 'c mpn_divrem L2:%d #%d L0 #%d L1 #%d' % (nn - dn + qxn, qxn, nn, dn)]
        if dn == 2:
            cmds += ['l 3 %d %s' % (nn, hx(n)), 'c mpn_divrem_2 L4:%d #%d L3 #%d L1' % (nn - 2 + qxn, qxn, nn)]
        def check(rep, n=n, d=d, nn=nn, dn=dn, qxn=qxn, ctor=ctor):
            out = []
            q, rem = divmod(n << (64 * qxn), d)
            for idx, fn in ((2, 'mpn_divrem'), (4, 'mpn_divrem_2')):
                if idx >= len(rep): break
                v, _ = split_reply(rep[idx]); qh = int(v[0])
                bufs = {x.split('=')[0]: I(x.split('=')[1]) for x in v[1:]}
                ql = bufs['L2' if idx == 2 else 'L4']; nb = bufs['L0' if idx == 2 else 'L3']
                if qh not in (0, 1) or (qh << (64 * (nn - dn + qxn))) + ql != q or (nb & ((1 << (64 * dn)) - 1)) != rem:
                    out.append(('%s:wrong:%s' % (fn, ctor), 'nn=%d dn=%d qxn=%d' % (nn, dn, qxn)))
            return out
        return Case(cmds, check, 2 if dn == 2 else 1, ('divrem', szb(nn - dn), szb(dn), qxn, ctor))
    if kind == 'cong':
        _, an, dn, mode, sg, _s = spec
        a = gen.signed(r, an); d = gen.signed(r, dn) if mode != 'zero-d' else 0
        if mode == 'eq': c = a
        elif mode == 'mult': c = a + d * gen.val(r, 3)
        elif mode == 'zero-d': c = r.choice([a, a + 1, -a, gen.val(r, 3)])
        else: c = gen.val(r, an)
        cmds = ['z Z1 %s' % hx(a), 'z Z2 %s' % hx(c), 'z Z3 %s' % hx(d), 'c mpz_congruent_p Z1 Z2 Z3', 'c mpz_divisible_p Z1 Z3']
        def check(rep, a=a, c=c, d=d):
            out = []
            e1 = (a == c) if d == 0 else ((a - c) % d == 0); e2 = (a == 0) if d == 0 else (a % d == 0)
            v, _ = split_reply(rep[3])
            if (int(v[0]) != 0) != e1: out.append(('mpz_congruent_p:wrong', 'a=%s c=%s d=%s' % (hx(a), hx(c), hx(d))))
            v, _ = split_reply(rep[4])
            if (int(v[0]) != 0) != e2: out.append(('mpz_divisible_p:wrong', 'a=%s d=%s' % (hx(a), hx(d))))
            return out
        return Case(cmds, check, 2, ('cong', an, dn, mode, d == 0))
    raise ValueError(kind)

HOOKS = {30: 'sb_div_qr n1==d1 special case', 31: 'sb_div_qr add-back', 32: 'udiv_qr_3by2 second adjustment', 33: 'tdiv_qr quotient_too_large fix-up', 34: 'inv_divappr_q_n multiply-out correction'}
def post(tier, agg, cov):
    hits = agg.get('hits', {})
    cov['rare_branches_observed'] = {HOOKS[k]: hits.get(k, 0) for k in HOOKS}
    missing = [HOOKS[k] for k in HOOKS if not hits.get(k)]
    if missing: return {'inconclusive': 'quotient-correction branches never taken (hook counters zero): %s' % missing}
