"""C04 no call sequence corrupts memory, breaks the allocator contract or a variable.

Random call histories over variable pools, generated interactively (the generator knows every
variable's value, so each call is inside the function's documented domain), then replayed with
every destination pre-shrunk (B) and with random shrink/grow (C); the three runs must agree
command by command, every monitor of the driver must stay silent, and after clearing every
object the recording allocator must hold nothing."""
import os, sys, random, time, json, math, multiprocessing, signal, traceback, re, argparse
from fractions import Fraction
import runner, rpc, gen, api, models
import build as bld
from rpc import hx, I, split_reply, parse_f, shex, unhexs
from c05 import valid

PID = 'C04'
LEVEL = 'exploration'
VARIANTS = {'quick': ['asan', 'asan-tdbg', 'asan-reent'], 'thorough': ['asan', 'asan-tdbg', 'asan-reent', 'plain']}
RULE = ('random histories of 80-300 commands over pools Z0..15/Q0..7/F0..7/R0..2 drawing from every generic function of drv/api.inc '
        '(all of mpz/mpq/mpf incl. init_set*, set_str/get_str with library-allocated strings, random functions on explicit states) plus init/'
        'realloc2/shrink/grow/reinit/swap, mpz_limbs_write/modify/finish/read, mpz_roinit_n, inits/clears, out_str->inp_str and out_raw->inp_raw '
        'through cookie streams, set_prec/set_prec_raw brackets; operands mostly 0..60 limbs, some to 700 and some above 8192 limbs (heap TMP); each '
        'history is run three times (A natural, B every destination shrunk to the smallest legal allocation before every call, C random shrink/'
        'grow) and all replies must be identical; monitors: ASan/UBSan(fatal subset), recording allocator (exact sizes, unknown pointers, leaks), '
        'libc-bypass detector, well-formedness of every written object, input digests; plus an edge stage: every function x K tuples of operands at the representation edges (mpz 0,+-1,B^k-1,B^k,B^k+1, zero low limbs; mpf mantissas filling exactly prec+1 limbs with top bit set/all ones, one limb; bit counts 0,1,63..65, 64*prec+-1; ui 0,1,2^32,2^63,2^64-1) called with grown and with minimal destinations, replies equal. distinct = (function, size bucket of largest input) and (function, edge shape); '
        'evaluations = library calls executed over the three runs')
ASSUMPTIONS = ['obsolete hidden-global random functions and mpz_array_init are excluded (as the property says)',
               'uninitialised reads are not detected (no MSan)']

NZ, NQ, NF, NR = 16, 8, 8, 3
EXPENSIVE = {'mpz_powm', 'mpz_powm_ui', 'mpz_gcdext', 'mpz_invert', 'mpz_nextprime', 'mpz_next_prime_candidate', 'mpz_probab_prime_p', 'mpz_probable_prime_p',
             'mpz_likely_prime_p', 'mpz_miller_rabin', 'mpz_root', 'mpz_nthroot', 'mpz_rootrem', 'mpz_remove', 'mpz_lcm', 'mpz_bin_ui', 'mpz_pow_ui', 'mpz_perfect_power_p',
             'mpz_jacobi', 'mpz_get_str', 'mpz_sizeinbase', 'mpq_get_str', 'mpz_urandomm', 'mpz_mul_si', 'mpz_mul_ui'}
GENERIC = sorted(n for n in api.FNS if api.is_generic(n) and not any(ch in api.FNS[n][1] for ch in 'wvC' if n not in ('mpz_get_str', 'mpq_get_str', 'mpf_get_str')))

def fbits(v):
    if v == 0: return 0
    return abs(v.numerator).bit_length() - v.denominator.bit_length()

class History:
    def __init__(self, drv, r, length):
        self.d = drv; self.r = r; self.length = length
        self.Z = [0] * NZ; self.Q = [Fraction(0)] * NQ; self.F = [Fraction(0)] * NF; self.Fprec = [64] * NF
        self.script = []        # (line, kind) kind: 'c' compare / 's' setup
        self.replies = []
        self.ncalls = 0; self.tags = set(); self.ops = {}

    def send(self, line, kind='c'):
        self.script.append(line)            # recorded before it is sent: a command that kills the driver must be part of the replayed script
        rep = self.d.batch([line])[0]
        self.replies.append(rep)
        if rep.startswith('?ERR'): raise runner.HarnessError('%s -> %s' % (line[:200], rep[:200]))
        return rep

    # ---- explicit assignment
    def set_z(self, k, v):
        self.send('z Z%d %s' % (k, hx(v)), 's'); self.Z[k] = v
    def set_q(self, k, v):
        self.send('q Q%d %s %s' % (k, hx(v.numerator), hx(v.denominator)), 's'); self.Q[k] = v
    def set_f(self, k, f, prec=None):
        prec = prec or self.r.choice(api.PRECS)
        line = api.fcmd('F%d' % k, prec, f)
        self.send(line, 's')
        rep = self.send('gf F%d' % k, 's')
        p, e, s, m = parse_f(rep.split()[0]); self.F[k] = models.mpf_value(p, e, s, m); self.Fprec[k] = 64 * (p - 1)

    def rnd_z(self):
        r = self.r; c = r.random()
        if c < 0.88: return gen.val(r, r.choice([2, 6, 6, 20, 60]))
        if c < 0.98: return gen.signed(r, r.randint(60, 700))
        return gen.signed(r, r.randint(8200, 9000), r.choice(['rand', 'ones', 'runs']))

    def update(self, sig, ret, toks, rep):
        vals, mon = split_reply(rep)
        i = 0
        if ret not in 'vp': i = 1
        seen = set()
        for ch, t in zip(sig, toks):
            if ch in 'ZI':
                if t in seen: continue
                seen.add(t); self.Z[int(t[1:])] = I(vals[i]) if t[0] == 'Z' else self.Z[int(t[1:])]; i += 1
            elif ch in 'QK':
                if t in seen: continue
                seen.add(t); n_, d_ = vals[i].split('/'); d0 = I(d_)
                self.Q[int(t[1:])] = Fraction(I(n_), d0) if d0 else None; i += 1
            elif ch in 'FJ':
                if t in seen: continue
                seen.add(t); p, e, s, m = parse_f(vals[i]); k = int(t[1:]); self.F[k] = models.mpf_value(p, e, s, m); self.Fprec[k] = 64 * (p - 1); i += 1
            elif ch == '&': i += 1
        return vals

    def step_call(self):
        r = self.r
        name = r.choice(GENERIC); ret, sig = api.FNS[name]
        v = api.fix(r, name, api.gen_args(r, name, maxl=r.choice([2, 6, 20])))
        if v is None: return
        # choose variables
        toks = [None] * len(sig); usedW = {'Z': set(), 'Q': set(), 'F': set()}
        for i, ch in enumerate(sig):
            if ch in 'ZI': k = r.choice([x for x in range(NZ) if x not in usedW['Z']]); usedW['Z'].add(k); toks[i] = 'Z%d' % k
            elif ch in 'QK': k = r.choice([x for x in range(NQ) if x not in usedW['Q']]); usedW['Q'].add(k); toks[i] = 'Q%d' % k
            elif ch in 'FJ': k = r.choice([x for x in range(NF) if x not in usedW['F']]); usedW['F'].add(k); toks[i] = 'F%d' % k
        fresh = any(ch in 'IJK' for ch in sig)      # init functions: the destination is cleared first, so it cannot be a source
        for i, ch in enumerate(sig):
            if ch == 'z': toks[i] = 'Z%d' % r.choice([x for x in range(NZ) if not (fresh and x in usedW['Z'])])
            elif ch == 'q': toks[i] = 'Q%d' % r.choice([x for x in range(NQ) if not (fresh and x in usedW['Q'])])
            elif ch == 'f': toks[i] = 'F%d' % r.choice([x for x in range(NF) if not (fresh and x in usedW['F'])])
            elif ch in 'Rr': toks[i] = 'R%d' % r.randrange(NR)
        # swap needs two different variables; in/out W args use their current values
        act = list(v)
        for i, ch in enumerate(sig):
            if ch in 'Zz': act[i] = self.Z[int(toks[i][1:])]
            elif ch in 'Qq': act[i] = self.Q[int(toks[i][1:])]
            elif ch in 'Ff':
                fv = self.F[int(toks[i][1:])]; act[i] = (fv.numerator, 0) if fv.denominator == 1 else (1 if fv > 0 else -1, 0) if fv else (0, 0)
        need_assign = False
        fvals = [self.F[int(toks[i][1:])] for i, ch in enumerate(sig) if ch == 'f']
        zin = [self.Z[int(toks[i][1:])] for i, ch in enumerate(sig) if ch in 'zZ']
        qin = [self.Q[int(toks[i][1:])] for i, ch in enumerate(sig) if ch in 'qQ']
        if any(q_ is None for q_ in qin): need_assign = True
        elif not valid(name, sig, act): need_assign = True
        mx = max([abs(z).bit_length() for z in zin] + [max(abs(q_.numerator).bit_length(), q_.denominator.bit_length()) for q_ in qin if q_ is not None] + [0])
        if name in EXPENSIVE and mx > 64 * 64: need_assign = True
        if mx > 64 * 20000: need_assign = True
        if any(abs(fbits(f_)) > 40000 for f_ in fvals) and (name.startswith(('mpz_set_f', 'mpq_set_f', 'mpf_get_str', 'mpf_get_', 'mpf_fits', 'mpf_floor', 'mpf_ceil', 'mpf_trunc', 'mpf_cmp')) or True): need_assign = True
        if name in ('mpz_mul_2exp', 'mpq_mul_2exp', 'mpq_div_2exp') and mx > 64 * 3000: need_assign = True
        if need_assign or r.random() < 0.35:
            done = set()
            for i, ch in enumerate(sig):
                t = toks[i]
                if ch in 'zqf' and t not in done:
                    done.add(t)
                    # aliased W? keep the manual's rules: assigning the input value is fine either way
                    if ch == 'z': self.set_z(int(t[1:]), v[i])
                    elif ch == 'q': self.set_q(int(t[1:]), v[i])
                    else: self.set_f(int(t[1:]), v[i])
            # two read positions sharing a variable now both hold the later value: recheck validity on actual values
            act = list(v)
            for i, ch in enumerate(sig):
                if ch in 'Zz': act[i] = self.Z[int(toks[i][1:])]
                elif ch in 'Qq': act[i] = self.Q[int(toks[i][1:])]
                elif ch in 'Ff':
                    fv = self.F[int(toks[i][1:])]; act[i] = (fv.numerator if fv.denominator == 1 else (1 if fv > 0 else -1 if fv < 0 else 0), 0)
            if any(a is None for a in act if a is None and False): return
            if any(self.Q[int(toks[i][1:])] is None for i, ch in enumerate(sig) if ch in 'qQ'): return
            if not valid(name, sig, act): return
            if name in EXPENSIVE and max([abs(self.Z[int(toks[i][1:])]).bit_length() for i, ch in enumerate(sig) if ch in 'zZ'] + [0]) > 64 * 64: return
        if name == 'mpz_divexact':
            n_ = self.Z[int(toks[1][1:])]; d_ = self.Z[int(toks[2][1:])]
            if d_ == 0 or n_ % d_: return
        if name == 'mpz_divexact_ui':
            n_ = self.Z[int(toks[1][1:])]
            if v[2] == 0 or n_ % v[2]: return
        for i, ch in enumerate(sig):
            if toks[i] is None: toks[i] = api.tok(ch, name, v[i])
        line = 'c %s %s' % (name, ' '.join(toks))
        rep = self.send(line)
        self.ncalls += 1; self.ops[name] = self.ops.get(name, 0) + 1
        self.tags.add((name, min(mx // 64, 64) if mx < 64 * 64 else 64 + mx.bit_length()))
        vals = self.update(sig, ret, toks, rep)
        # restore canonical form / defined values where the manual requires the caller to
        if name in ('mpz_set_str', 'mpz_init_set_str') and int(vals[0]) != 0: self.set_z(int(toks[0][1:]), self.rnd_z())
        if name in ('mpf_set_str', 'mpf_init_set_str') and int(vals[0]) != 0: self.set_f(int(toks[0][1:]), api.rnd_f(r))
        if name in api.NEEDS_CANON:
            k = int(toks[0][1:]); q_ = None
            rep2 = self.send('gq Q%d' % k, 's'); n_, d_ = rep2.split()[0].split('/')
            if (name == 'mpq_set_str' and int(vals[0]) != 0) or I(d_) == 0: self.set_q(k, api.rnd_q(r))
            else:
                rep3 = self.send('c mpq_canonicalize Q%d' % k); self.ncalls += 1
                self.update('Q', 'v', ['Q%d' % k], rep3)
        for k in range(NZ):
            if abs(self.Z[k]).bit_length() > 64 * 30000: self.set_z(k, 1)

    def step_alloc(self):
        r = self.r; k = r.randrange(NZ); c = r.random()
        if c < 0.3: self.send('shrink Z%d' % k, 's')
        elif c < 0.55: self.send('grow Z%d %d' % (k, r.choice([1, 2, 50, 3000])), 's')
        elif c < 0.7: self.send('reinit Z%d' % k, 's'); self.Z[k] = 0
        elif c < 0.85:
            bits = r.choice([0, 1, 64, 65, 640, abs(self.Z[k]).bit_length(), max(0, abs(self.Z[k]).bit_length() - 1), 20000])
            rep = self.send('c mpz_realloc2 Z%d #%d' % (k, bits)); self.ncalls += 1
            self.update('Zb', 'v', ['Z%d' % k, ''], rep)
        else:
            rep = self.send('c mpz_init2 Z%d #%d' % (k, r.choice([0, 1, 64, 65, 6400]))); self.Z[k] = 0; self.ncalls += 1

    def step_stream(self):
        r = self.r; c = r.random()
        if c < 0.35:
            k = r.randrange(NZ); j = r.randrange(NZ); base = r.choice([2, 10, 16, 36, 62, -16, r.randint(2, 62)])
            if abs(self.Z[k]).bit_length() > 64 * 300: self.set_z(k, gen.val(r, 8))
            self.send('wstream -1 %d' % r.randint(0, 1), 's'); self.send('c mpz_out_str W #%d Z%d' % (base, k)); w = self.send('wget')
            data = unhexs(w.split()[-1]) + r.choice([b'', b' ', b'\n7'])
            self.send('rstream %s -1 0 %d' % (shex(data), r.randint(0, 1)), 's')
            rep = self.send('c mpz_inp_str Z%d V #%d' % (j, abs(base))); self.update('Zvi', 'u', ['Z%d' % j, 'V', ''], rep); self.ncalls += 2
        elif c < 0.6:
            k = r.randrange(NZ); j = r.randrange(NZ)
            if abs(self.Z[k]).bit_length() > 64 * 3000: self.set_z(k, gen.val(r, 8))
            self.send('wstream -1 %d' % r.randint(0, 1), 's'); self.send('c mpz_out_raw W Z%d' % k); w = self.send('wget')
            data = unhexs(w.split()[-1])
            if r.random() < 0.3: data = data[:r.randint(0, len(data))]          # truncated stream
            self.send('rstream %s -1 0 %d' % (shex(data), r.randint(0, 1)), 's')
            rep = self.send('c mpz_inp_raw Z%d V' % j); vals = self.update('Zv', 'u', ['Z%d' % j, 'V'], rep); self.ncalls += 2
            if int(vals[0]) == 0: self.set_z(j, self.rnd_z())               # value after a failed read is unspecified
        elif c < 0.8:
            k = r.randrange(NQ); j = r.randrange(NQ); base = r.choice([10, 16, 62, r.randint(2, 36)])
            if self.Q[k] is None or max(abs(self.Q[k].numerator).bit_length(), self.Q[k].denominator.bit_length()) > 64 * 200: self.set_q(k, api.rnd_q(r))
            self.send('wstream -1 0', 's'); self.send('c mpq_out_str W #%d Q%d' % (base, k)); w = self.send('wget')
            self.send('rstream %s -1 0 0' % shex(unhexs(w.split()[-1])), 's')
            rep = self.send('c mpq_inp_str Q%d V #%d' % (j, base)); self.update('Qvi', 'u', ['Q%d' % j, 'V', ''], rep); self.ncalls += 2
            rep3 = self.send('c mpq_canonicalize Q%d' % j); self.update('Q', 'v', ['Q%d' % j], rep3)
        else:
            k = r.randrange(NF); j = r.randrange(NF); base = r.choice([10, 16, 2, 36]); nd = r.choice([0, 5, 30])
            if abs(fbits(self.F[k])) > 5000: self.set_f(k, api.rnd_f(r))
            self.send('wstream -1 0', 's'); self.send('c mpf_out_str W #%d #%d F%d' % (base, nd, k)); w = self.send('wget')
            self.send('rstream %s -1 0 0' % shex(unhexs(w.split()[-1])), 's')
            rep = self.send('c mpf_inp_str F%d V #%d' % (j, base)); vals = self.update('Fvi', 'u', ['F%d' % j, 'V', ''], rep); self.ncalls += 2
            if int(vals[0]) == 0: self.set_f(j, api.rnd_f(r))

    def step_limbs(self):
        r = self.r; k = r.randrange(NZ); c = r.random()
        if c < 0.4:
            n = r.choice([1, 2, 5, 40, 300]); v = gen.nat(r, n)
            rep = self.send('limbs Z%d write %d %s %d' % (k, n, hx(v), r.randint(0, 1))); self.Z[k] = I(rep.split()[1]); self.ncalls += 3
        elif c < 0.7:
            cur = abs(self.Z[k]); n = gen.nlimbs(cur) + r.choice([0, 0, 1, 3]); n = max(n, 1)
            if n > 20000: return
            v = (cur ^ r.getrandbits(64)) & ((1 << (64 * n)) - 1)
            if v >> (64 * (n - 1)) == 0: v |= 1 << (64 * (n - 1))
            rep = self.send('limbs Z%d modify %d %s %d' % (k, n, hx(v), r.randint(0, 1))); self.Z[k] = I(rep.split()[1]); self.ncalls += 3
        elif c < 0.9:
            n = r.choice([1, 3, 20]); v = gen.nat(r, n)
            rep = self.send('roinit %d %s %d Z%d' % (n, hx(v), r.randint(0, 1), k)); self.Z[k] = I(rep.split()[1]); self.ncalls += 2
        else:
            self.send('inits'); self.ncalls += 12

    def step_precraw(self):
        r = self.r; k = r.randrange(NF); j = r.randrange(NF)
        if k == j: return
        orig = self.Fprec[k]
        if orig < 128: self.set_f(k, api.rnd_f(r), 700); orig = self.Fprec[k]
        low = r.choice([53, 64, orig // 2, orig - 64])
        self.send('c mpf_set_prec_raw F%d #%d' % (k, low))
        # reading a variable whose precision was lowered with set_prec_raw is the documented use
        rep = self.send('c mpf_add F%d F%d F%d' % (j, k, k)); self.update('Fff', 'v', ['F%d' % j, '', ''], rep)
        rep = self.send('c mpf_sqrt_ui F%d #%d' % (k, r.randint(2, 99))); self.update('Fu', 'v', ['F%d' % k, ''], rep)
        self.send('c mpf_set_prec_raw F%d #%d' % (k, orig)); self.ncalls += 4
        rep = self.send('gf F%d' % k, 's'); p, e, s, m = parse_f(rep.split()[0]); self.F[k] = models.mpf_value(p, e, s, m); self.Fprec[k] = 64 * (p - 1)

    def step_big(self):
        r = self.r; a, b, c = r.sample(range(NZ), 3)
        n1 = r.choice([700, 8300, 9000]); n2 = r.choice([300, 700, 8200]) if n1 > 1000 else r.randint(50, 700)
        self.set_z(a, gen.signed(r, n1, r.choice(['rand', 'ones', 'runs']))); self.set_z(b, gen.signed(r, n2, r.choice(['rand', 'ones', 'special'])))
        fn = r.choice(['mpz_mul', 'mpz_tdiv_q', 'mpz_tdiv_r', 'mpz_fdiv_qr', 'mpz_gcd', 'mpz_sqrt', 'mpz_and', 'mpz_add', 'mpz_divexact', 'mpz_get_str'])
        if fn == 'mpz_divexact': self.set_z(a, self.Z[a] * self.Z[b])
        if fn == 'mpz_sqrt': self.set_z(a, abs(self.Z[a])); line = 'c mpz_sqrt Z%d Z%d' % (c, a); sig = 'Zz'; toks = ['Z%d' % c, '']
        elif fn == 'mpz_fdiv_qr':
            d = r.choice([x for x in range(NZ) if x not in (a, b, c)]); line = 'c mpz_fdiv_qr Z%d Z%d Z%d Z%d' % (c, d, a, b); sig = 'ZZzz'; toks = ['Z%d' % c, 'Z%d' % d, '', '']
        elif fn == 'mpz_get_str': line = 'c mpz_get_str 0 #%d Z%d' % (r.choice([10, 16, 7]), b); sig = 'Ciz'; toks = ['', '', '']
        else: line = 'c %s Z%d Z%d Z%d' % (fn, c, a, b); sig = 'Zzz'; toks = ['Z%d' % c, '', '']
        rep = self.send(line); self.ncalls += 1; self.ops[fn] = self.ops.get(fn, 0) + 1
        self.tags.add((fn, 'big', n1, n2))
        self.update(sig, api.FNS[fn][0], toks, rep)

    def run(self):
        r = self.r
        for k in range(NZ):
            if r.random() < 0.7: self.set_z(k, self.rnd_z() if r.random() < 0.5 else gen.val(r, 4))
        for k in range(NQ): self.set_q(k, api.rnd_q(r))
        for k in range(NF): self.set_f(k, api.rnd_f(r))
        for k in range(NR):
            self.send('c %s R%d' % (r.choice(['gmp_randinit_default', 'gmp_randinit_mt']), k) if r.random() < 0.7 else 'c gmp_randinit_lc_2exp_size R%d #%d' % (k, r.choice([16, 32, 64, 128])))
            self.send('c gmp_randseed_ui R%d #%d' % (k, r.getrandbits(32)))
        while len(self.script) < self.length:
            c = r.random()
            if c < 0.72: self.step_call()
            elif c < 0.80: self.step_alloc()
            elif c < 0.87: self.step_stream()
            elif c < 0.93: self.step_limbs()
            elif c < 0.96: self.step_precraw()
            elif c < 0.975: self.step_big()
            else:
                k = r.randrange(NR); self.send('c gmp_randinit_set R%d R%d' % (k, (k + 1) % NR) if False else 'c gmp_randseed_ui R%d #%d' % (k, r.getrandbits(20)))
        self.send('clearall')

W_RE = re.compile(r'^c (\S+) (.*)$')
def perturbed(script, mode, r):
    """insert allocation perturbation before every call: B shrink all destinations; C random shrink/grow"""
    out = []; idx = []
    for line in script:
        m = W_RE.match(line)
        if m and m.group(1) in api.FNS:
            sig = api.FNS[m.group(1)][1]; toks = m.group(2).split()
            for ch, t in zip(sig, toks):
                targets = []
                if ch == 'Z' and t[0] == 'Z': targets = [t]
                elif ch == 'Q': targets = ['N' + t[1:], 'D' + t[1:]]
                for tt in targets:
                    if mode == 'B': out.append('shrink ' + tt)
                    else:
                        c = r.random()
                        if c < 0.45: out.append('shrink ' + tt)
                        elif c < 0.8: out.append('grow %s %d' % (tt, r.choice([1, 2, 7, 100])))
        idx.append(len(out)); out.append(line)
    return out, idx

def comparable(line):
    return line.startswith(('c ', 'limbs ', 'roinit ', 'wget', 'clearall', 'gz ', 'gq ', 'gf '))

def run_history(worker, hseed, length):
    """returns (ncalls, tags, ops, failures)"""
    r = random.Random(hseed)
    fails = []
    d = worker.newdrv()
    h = History(d, r, length)
    case = runner.Case([], None, spec={'seed': hseed, 'length': length})
    try:
        h.run()
    except rpc.DrvDied as e:
        d.close()
        case.cmds = h.script; case.spec = {'script': h.script}
        culprit = h.script[-1] if h.script else '?'
        # confirm by replaying the script in a fresh driver
        st, out = worker.run_single(case)
        if st == 'died':
            worker.fail(runner.report_key(out.stderr, out.crashline, runner.cmd_fn(h.script[min(out.nreplies, len(h.script) - 1)])), (out.crashline or 'rc=%s' % out.rc) + ' | ' + culprit[:200], case, [], out.stderr)
        else:
            worker.res['unrepro'] += 1; worker.res['notes'].append('driver died in history %d at %s, not reproduced on replay' % (hseed, culprit[:100]))
        return h.ncalls, h.tags, h.ops
    except runner.HarnessError as e:
        d.close(); worker.res['harness_errors'].append('history %d: %s' % (hseed, e)); return h.ncalls, h.tags, h.ops
    d.close()
    case.cmds = h.script; case.spec = {'script': h.script}
    # monitors in run A
    def monitors(script, replies, mode):
        for line, rep in zip(script, replies):
            if '!' in rep:
                for t in rep.split():
                    if t.startswith('!'):
                        kind = re.sub(r'\(.*', '', t[1:]); kind = re.sub(r':[ZQFNDL]\d+(\.\w+)?', '', kind)
                        worker.fail('monitor:%s:%s' % (kind, runner.cmd_fn(line)), '%s in run %s: %s -> %s' % (t, mode, line[:160], rep[:200]), case, [])
        last = replies[-1] if replies else ''
        m = re.match(r'cleared live=(\d+) live_bytes=(\d+)', last)
        if not m: worker.res['harness_errors'].append('no clearall reply: %r' % last[:100])
        elif int(m.group(1)) != 0:
            worker.fail('leak:blocks-live-after-clearing-every-object', 'run %s: %s' % (mode, last[:100]), case, [])
    monitors(h.script, h.replies, 'A')
    total = h.ncalls
    for mode in ('B', 'C'):
        sc, idx = perturbed(h.script, mode, random.Random(hseed ^ 0x5bd1))
        c2 = runner.Case(sc, None, spec={'script': sc})
        dd = worker.newdrv()
        try:
            rep = dd.batch(sc, timeout=600)
        except rpc.DrvDied as e:
            dd.close()
            st, out = worker.run_single(c2)
            if st == 'died':
                worker.fail(runner.report_key(out.stderr, out.crashline, runner.cmd_fn(sc[min(out.nreplies, len(sc) - 1)])), 'run %s: %s' % (mode, out.crashline), c2, [], out.stderr)
            else:
                worker.res['unrepro'] += 1
            continue
        dd.close()
        monitors(sc, rep, mode)
        total += h.ncalls
        for k, line in enumerate(h.script):
            if not comparable(line): continue
            ra = h.replies[k]; rb = rep[idx[k]]
            if line.startswith('clearall'): continue
            # allocation figures in gz replies differ by construction
            if line.startswith('gz '): ra = ra.split()[0]; rb = rb.split()[0]
            if ra != rb:
                worker.fail('alloc-dependent-result:%s' % runner.cmd_fn(line), 'run A vs %s differ at %r: %s | %s' % (mode, line[:120], ra[:160], rb[:160]), c2, [])
                break
    return total, h.tags, h.ops

def worker_entry(a):
    tier, variant, wid, nw, sd, nhist = a
    signal.signal(signal.SIGINT, signal.SIG_IGN)
    import c04
    w = runner.Worker(c04, tier, variant, wid, nw, sd)
    t0 = time.time()
    try:
        for i in range(nhist):
            hseed = (sd * 1000003 + wid * 7919 + i * 104729) & 0xffffffffffff
            length = w.rng.choice([80, 150, 300])
            n, tags, ops = run_history(w, hseed, length)
            w.res['evaluations'] += n; w.res['cases'] += 1
            w.res['tags'] |= {hash(t) & 0xffffffffffff for t in tags}
            for k, v in ops.items(): w.res['ops'][k] = w.res['ops'].get(k, 0) + v
            if len(w.res['samples']) < 2: w.res['samples'].append({'history_seed': hseed, 'length': length, 'calls': n})
            if len(w.res['harness_errors']) > 3: break
    except Exception as ex:
        w.res['harness_errors'].append('worker %d: %s\n%s' % (wid, ex, traceback.format_exc()[-1500:]))
    w.res['wall'] = time.time() - t0
    return w.res

# ---------------------------------------------------------------- edge stage: every function once per edge-operand tuple
# Random histories reach a given (function, operand shape) pair only by luck (mpf_eq with 0 bits on a full mantissa, F15); this stage
# puts every generic function on operands at the representation's edges: mpz 0, +-1, B^k-1, B^k, B^k+1, zero low limbs; mpf mantissas
# of exactly prec+1 limbs (the whole allocation) with the top bit set / all ones / only the top bit / top limb 1, and of one limb;
# bit counts 0, 1, 63..65 and around 64*prec limbs; ui 0, 1, 2^32, 2^63, 2^64-1.  The call is made with grown and with minimal
# destinations and the replies must agree; the driver's monitors (ASan, recorder, WF, digests) judge each call.
EDGE_FNS = [n for n in GENERIC if n not in ('mpz_nextprime', 'mpz_next_prime_candidate')]

def smooth(r):
    v = 1
    for _ in range(r.randint(1, 6)): v *= r.choice([3, 3, 5, 7, 9, 11, 25, 49, 121, 169, 961, 997 * 997, 2]) ** r.randint(1, 3)
    return v

def edge_z(r):
    k = r.randint(1, 5); Bk = 1 << (64 * k)
    if r.random() < 0.2:
        # arithmetic structure instead of bit structure: smooth numbers, perfect powers and their neighbours, each also with whole zero low limbs
        v = r.choice([smooth(r), smooth(r), r.randint(2, 99) ** r.randint(2, 9), (gen.nat(r, 1) | 1) ** r.choice([2, 3, 5])]) + r.choice([0, 0, 0, 1, -1])
        v = abs(v) << (64 * r.choice([0, 0, 1, 2, 3, 5]))
        return -v if r.random() < 0.4 else v
    v = r.choice([0, 1, 2, Bk - 1, Bk, Bk + 1, Bk >> 1, (Bk >> 1) - 1, Bk - (1 << 64 * (k - 1)), gen.nat(r, k, 'rand') << (64 * r.randint(1, 3)),
                  (gen.nat(r, 1) | 1) << 63, gen.nat(r, k, 'ones'), gen.nat(r, k)])
    return -v if r.random() < 0.4 else v

def edge_f(r, prec):
    pl = (max(prec, 53) + 127) // 64
    size = r.choice([pl + 1, pl + 1, pl + 1, pl + 1, pl, pl + 2, 1, 2])
    bits = 64 * size
    pat = r.choice(['rand', 'ones', 'top', 'toplimb1', 'lowzero', 'lowones'])
    if pat == 'rand': m = r.getrandbits(bits) | (1 << (bits - 1))
    elif pat == 'ones': m = (1 << bits) - 1
    elif pat == 'top': m = 1 << (bits - 1)
    elif pat == 'toplimb1': m = (1 << (bits - 64)) | r.getrandbits(bits - 64) if size > 1 else 1
    elif pat == 'lowzero': m = (r.getrandbits(64) | (1 << 63)) << (bits - 64)
    else: m = ((1 << 63) << (bits - 64)) | ((1 << (bits - 64)) - 1) if size > 1 else M_
    e2 = -bits + 64 * r.choice([0, 1, 2, -1, -2, size, size - 1, size + 1, r.randint(-6, 6), r.choice([-1, 1]) * r.randint(50, 80)]) + r.choice([0, 0, 0, 0, 0, 0, 1, 63])
    if r.random() < 0.04: m = 0
    return (m * r.choice([1, 1, -1]), e2)
M_ = (1 << 64) - 1

def edge_specs(rng, tier, wid, nw, env):
    K = 156 if tier == 'quick' else 1560
    k = 0
    for name in EDGE_FNS:
        for j in range(K):
            k += 1
            if k % nw == wid: yield ('edge', name, j, rng.getrandbits(48))

def edge_build(spec, env):
    _, name, j, sd = spec[:4]; plain_args = len(spec) > 4 and spec[4] == 'rand'      # 'rand': the ordinary in-domain argument generator, no edge values
    r = random.Random(sd); ret, sig = api.FNS[name]
    prec = r.choice(api.PRECS); pl = (max(prec, 53) + 127) // 64
    BL = [0, 1, 63, 64, 65, 64 * pl - 1, 64 * pl, 64 * pl + 1, 64 * pl + 64, 64 * pl + 65, 64 * pl + 128, r.randint(0, 400), r.randint(0, 64 * pl)]
    REL = [None, None, 'eq', 'neg', 'lowbit', 'lowlimb']
    for attempt in range(30):
        v = api.gen_args(r, name, maxl=4 if not plain_args else r.choice([2, 6, 20]))
        for i, ch in enumerate(sig):
            if plain_args: break
            if ch in 'Zz': v[i] = edge_z(r)
            elif ch in 'Qq':
                d = abs(edge_z(r)) or 1; n = edge_z(r); v[i] = Fraction(n, d)
            elif ch in 'Ff': v[i] = edge_f(r, prec)
            elif ch == 'b': v[i] = BL[j % 13]
            elif ch == 'u': v[i] = r.choice([0, 1, 2, 1 << 32, 1 << 63, M_, M_ - 1, r.getrandbits(64)])
            elif ch == 's': v[i] = r.choice([0, 1, -1, -(1 << 63), (1 << 63) - 1, 1 << 32, -(1 << 31)])
        # related operands: equal, negated, differing in the last bit / last limb (cancellation, comparison loops running to the end)
        for ty in ('Zz', 'Qq', 'Ff'):
            pos = [i for i, ch in enumerate(sig) if ch in ty and ch.islower()]
            rel = REL[(j // 13) % 6] if not plain_args else None
            if len(pos) >= 2 and rel:
                a = v[pos[0]]
                if ty == 'Ff':
                    m, e2 = a; b = {'eq': m, 'neg': -m, 'lowbit': m ^ 1, 'lowlimb': m ^ r.getrandbits(64)}[rel]; v[pos[1]] = (b, e2)
                elif ty == 'Zz': v[pos[1]] = {'eq': a, 'neg': -a, 'lowbit': a ^ 1, 'lowlimb': a ^ r.getrandbits(64)}[rel]
                else: v[pos[1]] = {'eq': a, 'neg': -a, 'lowbit': a + Fraction(1, a.denominator), 'lowlimb': a}[rel]
        v = api.fix(r, name, v)
        if v is None: return None
        if valid(name, sig, v): break
    else:
        return None
    vars_ = {}; nxt = {'Z': 1, 'Q': 1, 'F': 1}
    for i, ch in enumerate(sig):
        if ch in 'ZzQqFfIJK':
            t = {'I': 'Z', 'J': 'F', 'K': 'Q'}.get(ch, ch.upper()); vars_[i] = '%s%d' % (t, nxt[t]); nxt[t] += 1
    def setup():
        cmds = []
        for i, ch in enumerate(sig):
            if ch in 'Zz': cmds.append('z %s %s' % (vars_[i], hx(v[i])))
            elif ch in 'Qq': cmds.append('q %s %s %s' % (vars_[i], hx(v[i].numerator), hx(v[i].denominator)))
            elif ch in 'Ff': cmds.append(api.fcmd(vars_[i], prec if ch == 'f' or r.random() < 0.6 else r.choice(api.PRECS), v[i]))
        if 'R' in sig or 'r' in sig: cmds.append('c gmp_randseed_ui R0 #%d' % (sd & 0xffffffff))
        return cmds
    toks = []
    for i, ch in enumerate(sig):
        if ch in 'ZzQqFfIJK': toks.append(vars_[i])
        elif ch in 'Rr': toks.append('R0')
        else: toks.append(api.tok(ch, name, v[i]))
    call = 'c %s %s' % (name, ' '.join(toks))
    pre = []
    for i, ch in enumerate(sig):
        if ch == 'Z': pre.append((('grow %s 3' % vars_[i]), 'shrink %s' % vars_[i]))
        elif ch == 'Q': pre += [('grow N%s 3' % vars_[i][1:], 'shrink N%s' % vars_[i][1:]), ('grow D%s 2' % vars_[i][1:], 'shrink D%s' % vars_[i][1:])]
    st = setup()
    c1 = st + [a for a, b in pre]; i1 = len(c1)
    c2 = st + [b for a, b in pre]; i2 = len(c2)
    cmds = c1 + [call] + c2 + [call]
    def check(rep, name=name):
        a = rep[i1]; b = rep[i1 + 1 + i2]
        if a != b: return [('alloc-dependent-result:%s' % name, 'grown=%s shrunk=%s' % (a[:200], b[:200]))]
    shape = tuple((min(gen.nlimbs(x), 8) if isinstance(x, int) else (gen.nlimbs(x[0]) - pl if isinstance(x, tuple) else 0)) for x in v if isinstance(x, (int, tuple)))
    return runner.Case(cmds, check, 2, ('edge', name, shape[:3]))

def specs(rng, tier, wid, nw, env):
    for sp in edge_specs(rng, tier, wid, nw, env): yield sp
    # library-allocated result blocks of every length: gmp_asprintf (cases shared with C18), mpz_get_str / mpq_get_str / mpf_get_str with a
    # NULL buffer (the driver frees them with strlen+1 through the recording allocator)
    k = 0
    for L0 in range(1, 1301, 20):
        k += 1
        if k % nw == wid: yield ('aslen', L0, min(L0 + 19, 1300), rng.getrandbits(48))
    for L0 in range(1, 700, 10):
        k += 1
        if k % nw == wid: yield ('strlen', L0, L0 + 9, rng.getrandbits(48))
def build(spec, env):
    if isinstance(spec, dict):
        sc = spec['script']
        return runner.Case(sc, lambda rep: [], len(sc))
    if spec[0] == 'aslen':
        import c18
        return c18.build(tuple(spec), env)
    if spec[0] == 'strlen':
        r = random.Random(spec[-1]); cmds = []
        for L in range(spec[1], spec[2] + 1):
            base = r.choice([2, 8, 10, 16, 36, 62, -16])
            z = (abs(base) ** (L - 1) + r.randrange(abs(base) ** (L - 1))) * r.choice([1, -1]) if L > 1 else r.randint(1, abs(base) - 1)
            qd = r.getrandbits(r.randint(2, 100)) | 1
            cmds += ['z Z1 %s' % hx(z), 'c mpz_get_str 0 #%d Z1' % base, 'q Q1 %s %s' % (hx(z), hx(qd)), 'c mpq_get_str 0 #%d Q1' % base,
                     api.fcmd('F1', 64 * ((L * 6) // 64 + 2), (z, r.randint(-70, 70))), 'c mpf_get_str 0 & #%d #%d F1' % (abs(base), r.choice([0, L, max(1, L // 2)]))]
        return runner.Case(cmds, lambda rep: [], 3 * (spec[2] - spec[1] + 1), ('strlen', spec[1]))
    return edge_build(tuple(spec), env)

def main(argv):
    ap = argparse.ArgumentParser(); ap.add_argument('--tier', default=os.environ.get('VERIF_TIER', 'quick')); ap.add_argument('--replay'); ap.add_argument('--variants')
    a = ap.parse_args(argv)
    import c04
    if a.replay: return runner.replay(c04, a.replay)
    t0 = time.time()
    variants = a.variants.split(',') if a.variants else VARIANTS[a.tier]
    nhist = {'quick': 14, 'thorough': 320}[a.tier]
    try:
        bld.ensure_variants(variants)
        for v in variants: bld.ensure_driver(v)
    except bld.BuildError as e:
        runner.finish(PID, a.tier, LEVEL, [], dict(evaluations=0, distinct_nontrivial=0, rule=RULE, samples=[]), ASSUMPTIONS, t0, inconclusive='build failed: %s' % e)
    nw = runner.NWORK
    jobs = [(a.tier, v, w, nw, runner.seed(), nhist) for v in variants for w in range(nw)]
    with multiprocessing.get_context('fork').Pool(nw) as pool:
        results = pool.map(worker_entry, jobs, chunksize=1)
    agg = runner.aggregate([('c04', j[0], j[1], j[2], j[3], j[4]) for j in jobs], results)
    # edge stage through the standard case pipeline
    ejobs, eres = runner.run_workers('c04', a.tier, [v for v in variants if v in ('asan', 'asan-tdbg')] or variants[:1])
    eagg = runner.aggregate(ejobs, eres)
    nh = agg['cases']
    for k in ('evaluations', 'cases', 'unrepro'): agg[k] += eagg[k]
    agg['tags'] |= eagg['tags']; agg['failures'] += eagg['failures']; agg['notes'] += eagg['notes']; agg['harness_errors'] += eagg['harness_errors']
    for k, n in eagg['ops'].items(): agg['ops'][k] = agg['ops'].get(k, 0) + n
    agg['cases'] = nh; agg['edge_cases'] = eagg['cases']
    cov = dict(evaluations=agg['evaluations'], histories=agg['cases'], edge_cases=agg['edge_cases'], distinct_nontrivial=len(agg['tags']), rule=RULE, samples=agg['samples'][:8],
               variants=variants, per_variant=agg['per_variant'], calls_per_function=dict(sorted(agg['ops'].items())), functions_called=len(agg['ops']),
               functions_in_table=len(GENERIC), notes=agg['notes'][:10], unreproduced_driver_deaths=agg['unrepro'], tree=bld.tree_hash())
    inconc = None
    if agg['unrepro']: inconc = 'driver died without reproduction'
    runner.finish(PID, a.tier, LEVEL, agg['failures'], cov, ASSUMPTIONS, t0, harness_errors=agg['harness_errors'], inconclusive=inconc)
