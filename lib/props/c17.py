"""C17 import/export, raw and stream I/O round-trip in the documented format and report faults."""
import random, math
from fractions import Fraction
from runner import Case
from rpc import hx, I, split_reply, parse_f, shex, unhexs
import gen, models, api
from gen import B, M

PID = 'C17'
LEVEL = 'fault_enumeration'
VARIANTS = {'quick': ['asan', 'plain'], 'thorough': ['asan', 'plain', 'asan-tdbg']}
RULE = ('export->import for every size 1..16 x order +-1 x endian -1/0/+1 x nails sampled over 0..8*size-1 (all in thorough) x pad/misalignment '
        '0..7 x values {0, 1, 2^k-1 at word and nail boundaries, random 1..9 limbs}: exact word count, exact bytes by an int.to_bytes model, zero '
        'nail bits, garbage nail bits ignored on import, fenced buffers, library-allocated result; out_raw exact bytes and read-back; mpz/mpq/mpf '
        'out_str->inp_str through cookie streams in bases 2..62. Fault enumeration: for each sampled valid stream, EVERY truncation point k=0..len '
        '(reader gets k bytes then EOF, or a read error) and EVERY write-failure position k on an unbuffered stream: input functions must return 0 '
        'unless the prefix is itself a complete number, output functions 0 (gmp_fprintf -1), no crash/leak (driver recorder), destination '
        'well-formed and assignable afterwards; arbitrary raw headers (all 2^16 first-two-byte combinations in thorough, sampled in quick, counts '
        'disagreeing with the data in both directions, negative counts). distinct = (function, parameters / fault position class)')
ASSUMPTIONS = ['fopencookie streams behave like stdio files for the library', 'giant announced counts (> 64 KB) are tried only a handful of times (allocation of the announced size is permitted)',
               'endian 0 is little endian on this host']

def words_model(a, order, size, endian, nails):
    """byte string mpz_export must produce for |a| (count, bytes)"""
    if a == 0: return 0, b''
    wb = 8 * size - nails
    count = (a.bit_length() + wb - 1) // wb
    words = [(a >> (wb * i)) & ((1 << wb) - 1) for i in range(count)]      # least significant first
    if order == 1: words = words[::-1]
    e = 'little' if endian in (0, -1) else 'big'
    return count, b''.join(w.to_bytes(size, e) for w in words)

def raw_model(x):
    """bytes mpz_out_raw writes"""
    a = abs(x); n = (a.bit_length() + 7) // 8
    return ((-n if x < 0 else n) & 0xffffffff).to_bytes(4, 'big') + a.to_bytes(n, 'big')

PF_FMTS = [('%Zd|%Qd|%.10Ff', 'Z1 Q1 F1'), ('x=%Zx y=%d %s', 'Z1 #42 ' + shex('tail')), ('%Qx\n', 'Q1'), ('[%20Zd]', 'Z1'), ('%s%Zd%s', shex('ab') + ' Z1 ' + shex('cd')),
           ('%.20Fe', 'F1'), ('%Zd', 'Z1'), ('%40Zd', 'Z1'), ('%-40Zd', 'Z1'), ('%040Zx', 'Z1'), ('%Qd', 'Q1'), ('%-30Qd', 'Q1'), ('%Ff', 'F1'), ('%-50.3Fg', 'F1'),
           ('%d %Zd', '#7 Z1'), ('%s|%-12Zd', shex('head') + ' Z1'), ('%Zd%Zd', 'Z1 Z1'), ('%.30Zd', 'Z1'), ('%#Zx %Fe', 'Z1 F1'), ('%Zd %c', 'Z1 #65')]

def specs(rng, tier, wid, nw, env):
    q = tier == 'quick'; k = 0
    for size in range(1, 17):
        for order in (1, -1):
            for endian in (-1, 0, 1):
                nl = range(0, 8 * size) if not q else sorted({0, 1, 7, 8, 8 * size - 1, rng.randrange(8 * size)})
                for nails in nl:
                    if nails >= 8 * size: continue
                    k += 1
                    if k % nw == wid: yield ('exp', size, order, endian, nails, rng.randrange(8), rng.getrandbits(48))
    S = 40 if q else 500
    for i in range(S):
        k += 1
        if k % nw == wid: yield ('trunc', rng.choice(['raw', 'raw', 'zstr', 'qstr', 'fstr']), rng.getrandbits(48))
        k += 1
        if k % nw == wid: yield ('wfail', rng.choice(['raw', 'zstr', 'qstr', 'fstr']), rng.getrandbits(48))
    # gmp_fprintf / gmp_vfprintf write failures: every format shape (MPIR conversion first / in the middle / last, padding on either side,
    # plain C conversions around) x both functions x every byte position, deterministically (a random choice of shape missed F13)
    for fi in range(len(PF_FMTS)):
        for fnname in ('fprintf', 'vfprintf'):
            for j in range(2 if q else 12):
                k += 1
                if k % nw == wid: yield ('wfail', 'fprintf', fi, fnname, rng.getrandbits(48))
    hdrs = range(1 << 16) if not q else rng.sample(range(1 << 16), 1500) + [0, 0xffff, 0x8000, 0x7fff, 0x0001, 0xff00]
    for h in hdrs:
        k += 1
        if k % nw == wid: yield ('hdr', h, rng.getrandbits(48))
    N = 6000 if q else 100000
    for i in range(N):
        c = rng.random()
        if c < 0.4: yield ('exp', rng.randint(1, 16) if rng.random() < 0.8 else rng.choice([17, 24, 31, 32, 33, 64, 100, 257]), rng.choice([1, -1]), rng.choice([-1, 0, 1]), None, rng.randrange(8), rng.getrandbits(48))
        elif c < 0.7: yield ('rt', rng.choice(['raw', 'zstr', 'qstr', 'fstr']), rng.getrandbits(48))
        else: yield ('hdr', None, rng.getrandbits(48))

def rt_value(r, what):
    if what in ('raw', 'zstr'): return r.choice([gen.val(r, 5), gen.signed(r, r.randint(1, 40)), 0, -1, 255, 256, -(1 << 64)])
    if what == 'qstr': return api.rnd_q(r)
    return api.rnd_f(r)

def out_cmds(what, base, nd=0):
    if what == 'raw': return 'c mpz_out_raw W Z1'
    if what == 'zstr': return 'c mpz_out_str W #%d Z1' % base
    if what == 'qstr': return 'c mpq_out_str W #%d Q1' % base
    return 'c mpf_out_str W #%d #%d F1' % (base, nd)
def in_cmds(what, base):
    if what == 'raw': return 'c mpz_inp_raw Z2 V'
    if what == 'zstr': return 'c mpz_inp_str Z2 V #%d' % base
    if what == 'qstr': return 'c mpq_inp_str Q2 V #%d' % base
    return 'c mpf_inp_str F2 V #%d' % base
def set_cmd(what, v):
    if what in ('raw', 'zstr'): return 'z Z1 %s' % hx(v)
    if what == 'qstr': return 'q Q1 %s %s' % (hx(v.numerator), hx(v.denominator))
    return api.fcmd('F1', 200, v)
AFTER = {'raw': ['c mpz_set_ui Z2 #7', 'c mpz_add Z2 Z2 Z2'], 'zstr': ['c mpz_set_ui Z2 #7', 'c mpz_add Z2 Z2 Z2'], 'qstr': ['c mpq_set_ui Q2 #7 #3', 'c mpq_add Q2 Q2 Q2'], 'fstr': ['c mpf_set_ui F2 #7', 'c mpf_add F2 F2 F2']}

def expected_text(what, v, base):
    if what == 'zstr': return models.digits(v, base)
    if what == 'qstr': return models.digits(v.numerator, base) + ('/' + models.digits(v.denominator, base) if v.denominator != 1 else '')
    return None

def build(spec, env):
    kind = spec[0]; r = random.Random(spec[-1])
    if kind == 'exp':
        _, size, order, endian, nails, pad, _s = spec
        if nails is None: nails = r.choice([0, 0, 1, 7, 8, r.randrange(8 * size)])
        if nails >= 8 * size: nails = 8 * size - 1
        wb = 8 * size - nails
        c = r.random()
        if c < 0.1: a = r.choice([0, 1])
        elif c < 0.45: kk = r.choice([wb, 2 * wb, 3 * wb, 64, 128, wb - 1 or 1, wb + 1, 8 * size, 64 * r.randint(1, 4)]); a = (1 << kk) - r.choice([0, 1]) if kk > 0 else 1
        else: a = gen.nat(r, r.randint(1, 9))
        neg = r.random() < 0.3
        count, data = words_model(a, order, size, endian, nails)
        cmds = ['z Z1 %s' % hx(-a if neg else a), 'export Z1 %d %d %d %d %d %d' % (order, size, endian, nails, len(data), pad),
                'export Z1 %d %d %d %d 0 0 null' % (order, size, endian, nails)]
        # nail bits of the input are ignored by import
        dirty = bytearray(data)
        if nails and count:
            e_big = endian == 1
            for w in range(count):
                for bit in range(wb, 8 * size):
                    if r.random() < 0.5:
                        byte = bit // 8; idx = w * size + ((size - 1 - byte) if e_big else byte); dirty[idx] |= 1 << (bit % 8)
        cmds += ['import Z2 %d %d %d %d %d %d %s' % (count, order, size, endian, nails, pad, shex(bytes(data))),
                 'import Z3 %d %d %d %d %d %d %s' % (count, order, size, endian, nails, r.randrange(8), shex(bytes(dirty)))]
        def check(rep, a=a, count=count, data=data, size=size, order=order, endian=endian, nails=nails):
            out = []; d = 'size=%d order=%d endian=%d nails=%d pad=%d a=%s' % (size, order, endian, nails, pad, hx(a)[:60])
            for idx, lab in ((1, 'buffer'), (2, 'allocated')):
                v, _ = split_reply(rep[idx])
                got = unhexs(v[1]) if len(v) > 1 else b''
                if int(v[0]) != count: out.append(('mpz_export:wrong-count:%s' % lab, d + ' got=%s want=%d' % (v[0], count)))
                elif got != data: out.append(('mpz_export:wrong-bytes:%s' % lab, d + ' got=%s want=%s' % (got.hex()[:80], data.hex()[:80])))
            v, _ = split_reply(rep[3])
            if I(v[0]) != a: out.append(('mpz_import:roundtrip-wrong', d + ' got=%s' % v[0][:60]))
            v, _ = split_reply(rep[4])
            if I(v[0]) != a: out.append(('mpz_import:nail-bits-not-ignored', d + ' got=%s' % v[0][:60]))
            return out
        return Case(cmds, check, 4, ('exp', size, order, endian, nails, pad, min(count, 12)), trivial=(a == 0))
    if kind == 'rt':
        _, what, _s = spec
        v = rt_value(r, what); base = r.choice([2, 10, 16, 36, 62, r.randint(2, 62)]) if what != 'raw' else 0
        nd = r.choice([0, 0, 20])
        cmds = [set_cmd(what, v), 'wstream -1 %d' % r.randint(0, 1), out_cmds(what, base, nd), 'wget']
        def check(rep, v=v, what=what, base=base):
            out = []; w = rep[3].split(); data = unhexs(w[-1]); ret = int(split_reply(rep[2])[0][0])
            d = '%s base=%d v=%s' % (what, base, str(v)[:60])
            if ret != len(data): out.append(('%s:return-not-byte-count' % out_cmds(what, base).split()[1], d + ' ret=%d bytes=%d' % (ret, len(data))))
            if what == 'raw' and data != raw_model(v): out.append(('mpz_out_raw:wrong-bytes', d + ' got=%s want=%s' % (data.hex()[:80], raw_model(v).hex()[:80])))
            et = expected_text(what, v, base)
            if et is not None and data.decode('latin-1') != et: out.append(('%s:wrong-text' % out_cmds(what, base).split()[1], d + ' got=%r want=%r' % (data[:60], et[:60])))
            return out
        case = Case(cmds, check, 1, ('rt-out', what, base))
        # the read-back half needs the bytes: do it with the model's own bytes (raw / z / q) so that one batch suffices
        if what == 'raw': data = raw_model(v)
        elif what in ('zstr', 'qstr'): data = expected_text(what, v, base).encode()
        else: return case
        tail = r.choice([b'', b' ', b'\n', b'\x00'])
        cmds += ['rstream %s -1 0 %d' % (shex(data + tail), r.randint(0, 1)), in_cmds(what, base)] + (['c mpq_canonicalize Q2'] if False else [])
        def check2(rep, v=v, what=what, base=base, data=data, chk=check):
            out = chk(rep) or []
            x, _ = split_reply(rep[5]); d = '%s base=%d v=%s' % (what, base, str(v)[:60])
            if int(x[0]) != len(data): out.append(('%s:return-not-bytes-read' % in_cmds(what, base).split()[1], d + ' ret=%s want=%d' % (x[0], len(data))))
            if what == 'qstr':
                n_, d_ = x[1].split('/')
                if (I(n_), I(d_)) != (v.numerator, v.denominator): out.append(('mpq_inp_str:readback-wrong', d))
            elif I(x[1]) != v: out.append(('%s:readback-wrong' % in_cmds(what, base).split()[1], d + ' got=%s' % x[1][:60]))
            return out
        case.check = check2; case.ncalls = 2
        return case
    if kind == 'trunc':
        _, what, _s = spec
        v = rt_value(r, what); base = r.choice([10, 16, 36, 62]) if what != 'raw' else 0
        if what == 'raw': v = r.choice([gen.signed(r, r.randint(1, 5)), gen.val(r, 3) or 5]); data = raw_model(v)
        elif what in ('zstr', 'qstr'):
            if what == 'zstr' and v == 0: v = 77
            data = expected_text(what, v, base).encode()
        else:
            m, e2 = v; m = m or 5; v = (m, e2)
            al = models.alphabet(base); data = (('-' if m < 0 else '') + '0.' + ''.join(r.choice(al[1:base]) for _ in range(12)) + ('e5' if base == 10 else '@3')).encode()
        err = r.randint(0, 1); unbuf = r.randint(0, 1)
        cmds = []
        for kpos in range(len(data) + 1):
            cmds += ['rstream %s %d %d %d' % (shex(data), kpos, err, unbuf), in_cmds(what, base)] + AFTER[what]
        def check(rep, data=data, what=what, base=base, v=v):
            out = []; fn = in_cmds(what, base).split()[1]
            for kpos in range(len(data) + 1):
                x, _ = split_reply(rep[4 * kpos + 1]); ret = int(x[0]); pre = data[:kpos]
                d = '%s base=%d stream=%s cut at %d of %d (err=%d unbuf=%d)' % (what, base, data[:40].hex(), kpos, len(data), err, unbuf)
                if what == 'raw':
                    if kpos < len(data):
                        if ret != 0: out.append(('mpz_inp_raw:truncated-stream-not-reported', d + ' ret=%d' % ret))
                    elif ret != len(data) or I(x[1]) != v: out.append(('mpz_inp_raw:complete-stream-wrong', d))
                else:
                    # a proper prefix may itself be a complete number (text formats): then any answer consistent with a number is fine
                    if kpos == len(data):
                        if ret != len(data): out.append(('%s:complete-stream-wrong' % fn, d + ' ret=%d' % ret))
                    elif kpos == 0 or pre in (b'-',):
                        if ret != 0: out.append(('%s:truncated-stream-not-reported' % fn, d + ' ret=%d' % ret))
                    elif ret > kpos: out.append(('%s:reports-more-bytes-than-exist' % fn, d + ' ret=%d' % ret))
                # the destination must still be usable
                y, _ = split_reply(rep[4 * kpos + 3])
                want = {'raw': 'e', 'zstr': 'e', 'qstr': 'e/3', 'fstr': None}[what]
                if want and y[0] != want: out.append(('%s:destination-unusable-after-failed-read' % fn, d + ' got=%s' % y[0][:40]))
            return out
        return Case(cmds, check, 3 * (len(data) + 1), ('trunc', what, base, err, unbuf, min(len(data), 60)))
    if kind == 'wfail':
        what = spec[1]
        if what == 'fprintf':
            z = gen.val(r, 3); qv = api.rnd_q(r); f = api.rnd_f(r, 100)
            fmt, args = PF_FMTS[spec[2]]; fnname = spec[3]
            if spec[4] & 1: z = gen.val(r, 1); qv = Fraction(r.randint(-99, 99), r.randint(1, 9))
            setup = ['z Z1 %s' % hx(z), 'q Q1 %s %s' % (hx(qv.numerator), hx(qv.denominator)), api.fcmd('F1', 128, f)]
            call = 'pf %s - %s %s' % (fnname, shex(fmt), args)
            # length: run once without faults first
            cmds = setup + ['wstream -1 1', call, 'wget']
            L = 300
            for kpos in range(L): cmds += ['wstream %d 1' % kpos, call, 'wget']
            def check(rep, fmt=fmt, fnname=fnname):
                out = []; n0 = len(setup)
                full = int(split_reply(rep[n0 + 1])[0][0]); data = unhexs(rep[n0 + 2].split()[-1])
                if full != len(data): out.append(('gmp_%s:return-not-length' % fnname, 'fmt=%r ret=%d bytes=%d' % (fmt, full, len(data))))
                for kpos in range(min(L, full)):
                    x, _ = split_reply(rep[n0 + 3 + 3 * kpos + 1]); ret = int(x[0])
                    if ret != -1: out.append(('gmp_%s:write-failure-not-reported' % fnname, 'fmt=%r fail at byte %d of %d ret=%d' % (fmt, kpos, full, ret)))
                return out
            return Case(cmds, check, L + 1, ('wfail', 'fprintf', fmt))
        v = rt_value(r, what); base = r.choice([10, 16, 62]) if what != 'raw' else 0
        if what == 'fstr' and v[0] == 0: v = (3, v[1])
        call = out_cmds(what, base, 0)
        cmds = [set_cmd(what, v), 'wstream -1 1', call, 'wget']
        L = 120
        for kpos in range(L): cmds += ['wstream %d 1' % kpos, call, 'wget']
        def check(rep, what=what, v=v, base=base):
            out = []; fn = call.split()[1]
            full = int(split_reply(rep[2])[0][0]); data = unhexs(rep[3].split()[-1])
            if full != len(data): out.append(('%s:return-not-byte-count' % fn, 'ret=%d bytes=%d' % (full, len(data))))
            for kpos in range(min(L, full)):
                x, _ = split_reply(rep[4 + 3 * kpos + 1]); ret = int(x[0])
                if ret != 0: out.append(('%s:write-failure-not-reported' % fn, '%s base=%d v=%s fail at byte %d of %d ret=%d' % (what, base, str(v)[:40], kpos, full, ret)))
            return out
        return Case(cmds, check, L + 1, ('wfail', what, base))
    if kind == 'hdr':
        _, h, _s = spec
        if h is None:
            cnt = r.choice([0, 1, 2, 7, 8, 9, 100, 65535, -1, -2, -8, -9, -100, r.randint(-70000, 70000)])
            hb = (cnt & 0xffffffff).to_bytes(4, 'big')
        else:
            # all combinations of the first two count bytes: the remaining two small so that the data fit in memory when the top bytes are 0/ff
            hb = bytes([h >> 8, h & 0xff, r.choice([0, 1, 0xff]), r.randrange(256)])
            cnt = int.from_bytes(hb, 'big', signed=True)
        n = abs(cnt)
        big = n > 70000
        have = r.choice([0, 1, n - 1 if n else 0, n, n + 1, n + 17, r.randint(0, 40)]) if not big else r.choice([0, 5, 300])
        have = max(0, min(have, 80000))
        body = bytes(r.getrandbits(8) for _ in range(min(have, 300))) + bytes(max(0, have - 300))
        if big and abs(cnt) > (1 << 24) and r.random() < 0.97: return None       # announced size above 16 MB: allocation permitted, too costly to enumerate
        cmds = ['z Z2 %s' % hx(99), 'rstream %s -1 %d %d' % (shex(hb + body), r.randint(0, 1), r.randint(0, 1)), 'c mpz_inp_raw Z2 V', 'c mpz_set_ui Z2 #7', 'c mpz_add Z2 Z2 Z2']
        def check(rep, cnt=cnt, n=n, have=have, body=body, hb=hb):
            out = []; x, _ = split_reply(rep[2]); ret = int(x[0]); d = 'header=%s count=%d data bytes available=%d' % (hb.hex(), cnt, have)
            if have < n:
                if ret != 0: out.append(('mpz_inp_raw:short-data-not-reported', d + ' ret=%d' % ret))
            else:
                val = int.from_bytes(body[:n], 'big') * (-1 if cnt < 0 else 1)
                if ret != n + 4 or I(x[1]) != val: out.append(('mpz_inp_raw:wrong', d + ' ret=%d got=%s' % (ret, x[1][:50])))
            y, _ = split_reply(rep[4])
            if y[0] != 'e': out.append(('mpz_inp_raw:destination-unusable-afterwards', d))
            return out
        return Case(cmds, check, 1, ('hdr', hb[0], hb[1], min(have, 40), have >= n))
    raise ValueError(kind)
