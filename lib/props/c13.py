"""C13 float results accurate to the destination precision, exact if representable, well formed."""
import random, math
from fractions import Fraction
from runner import Case
from rpc import hx, I, split_reply, parse_f, shex, unhexs
import gen, models
from gen import B, M
from c11 import dtok, rand_double

PID = 'C13'
LEVEL = 'exploration'
VARIANTS = {'quick': ['asan', 'plain'], 'thorough': ['asan', 'plain', 'asan-tdbg']}
RULE = ('[also: mpf_get_str guard class: n = the last digit count judged as carried, prec+1-limb operands with a few-bit top limb, every base 2..62, exponents up to +-4000 limbs] destination precision and each operand precision independently from {53,64,65,128,200,1000,6400} bits; exponent differences none, 1, '
        'prec-1, prec, prec+1, far (no/partial/full overlap); near-cancellation x(1+2^-j)-x, the ...1000/...0fff borrow pattern across 1..5 limbs, '
        'low zero limbs, top limb 1; add/sub/mul/div/sqrt, _ui forms, set_q/set_z/set_d/set_str judged by |res-exact| < 2^(2-p)|exact| in exact '
        'rational arithmetic (sqrt by squares) and res == exact whenever operands and the exact value fit p bits; floor/ceil/trunc/neg/abs/mul_2exp/'
        'ripple class (products just above a power of B from operands longer than the destination, all-ones + 1 ulp, B^n - 1 ulp, for mul_ui/mul/add/add_ui/sub/sub_ui/ui_sub/div_ui); div_2exp/set exact when representable (else bound, same sign, |res|<=|exact|); integer_p; get_str digit accuracy; format rules by the '
        'driver monitor after every call; set_prec/set_prec_raw between operations. distinct = (function, precisions, pattern, alias)')
ASSUMPTIONS = ['p = mpf_get_prec(rop) read back from the result object (limb precision - 1 limbs)', 'fractions.Fraction exact']

PRECS = [53, 64, 65, 128, 200, 1000, 6400]
def plimbs(bits):
    return max(2, (bits + 127) // 64)      # __GMPF_BITS_TO_PREC

def fval(tok):
    p, e, s, m = parse_f(tok); return models.mpf_value(p, e, s, m), 64 * (p - 1)

def fcmd(name, precbits, mant, e2):
    """value mant*2^e2 stored with the given precision; mant must fit prec+1 limbs after alignment"""
    if mant == 0: return 'f %s %d 0 0 0' % (name, precbits), Fraction(0)
    s = e2 % 64; m = abs(mant) << s; e = (e2 - s) // 64
    pl = plimbs(precbits); size = gen.nlimbs(m)
    if size > pl + 1:
        m >>= 64 * (size - pl - 1); e += size - pl - 1; size = pl + 1
        if m == 0: m = 1
    exp = size + e
    v = Fraction(m) * Fraction(2) ** (64 * e)
    return 'f %s %d %d %d %x' % (name, precbits, exp, -size if mant < 0 else size, m), (-v if mant < 0 else v)

def sigbits(v):
    if v == 0: return 0
    n = abs(v.numerator); return (n >> ((n & -n).bit_length() - 1)).bit_length() if v.denominator & (v.denominator - 1) == 0 else 10 ** 9

def within(res, exact, p):
    if exact == 0: return res == 0
    return abs(res - exact) * (1 << max(p - 2, 0)) < abs(exact)

def rand_mant(r, bits, cls=None):
    cls = cls or r.choice(['rand', 'rand', 'ones', 'top1', 'lowzero', 'short', 'runs'])
    n = max(1, bits)
    if cls == 'rand': m = r.getrandbits(n) | (1 << (n - 1))
    elif cls == 'ones': m = (1 << n) - 1
    elif cls == 'top1': m = (1 << (n - 1)) | r.getrandbits(max(1, n - 64))
    elif cls == 'lowzero': m = (r.getrandbits(max(1, n // 3)) | 1) << (n - n // 3)
    elif cls == 'short': m = r.getrandbits(r.randint(1, min(n, 60))) | 1
    else: m = gen.runs(r, n) | (1 << (n - 1))
    return m

def specs(rng, tier, wid, nw, env):
    q = tier == 'quick'; k = 0
    pats = ['toppart', 'rand', 'gap0', 'gap1', 'gap-1', 'gap=prec-1', 'gap=prec', 'gap=prec+1', 'far', 'cancel', 'borrow', 'equal', 'lowzero', 'top1', 'small-int']
    P = PRECS[:6] if q else PRECS
    for op in ('mpf_add', 'mpf_sub', 'mpf_mul', 'mpf_div'):
        for pd in P:
            for pa in (P if not q else [53, 65, 200, 1000]):
                for pat in pats:
                    k += 1
                    if k % nw == wid: yield ('bin', op, pd, pa, rng.choice(P), pat, rng.choice(['w', 'w', 'w=a', 'w=b', 'a=b']), rng.getrandbits(48))
    # the exact accessors named by the property: integer_p, fits_*_p, get_si/ui/d/d_2exp (cases shared with C11) and get_prec/set_prec/init2
    for i in range(4000 if q else 60000):
        k += 1
        if k % nw == wid: yield ('getfits', rng.getrandbits(48))
    for i in range(600 if q else 6000):
        k += 1
        if k % nw == wid: yield ('prec', rng.getrandbits(48))
    # carries / borrows that ripple through every kept limb: products just above a power of B from operands longer than the destination
    # (the carry-in from the dropped limbs overflows an all-ones kept part, A44), all-ones + 1, B^n - 1 ulp
    for sub in ('mul_ui', 'mul', 'add', 'add_ui', 'sub', 'sub_ui', 'ui_sub', 'div_ui'):
        for pd in (P[:5] if q else P[:6]):
            for j in range(12 if q else 120):
                k += 1
                if k % nw == wid: yield ('ripple', sub, pd, rng.getrandbits(48))
    # mpf_get_str at the edge of what the precision carries: n = the last digit count my rule still judges, operand of prec+1 limbs whose top limb
    # holds only a few bits, exponents far from 0 (long power chains): this is where the working precision of the conversion has fewest guard bits (F18)
    for base in list(range(2, 63)) + [-2, -10, -36]:
        for pa in (P[:4] if q else P[:6]):
            for j in range(6 if q else 60):
                k += 1
                if k % nw == wid: yield ('getstr', pa, base, 'guard', rng.getrandbits(48))
    N = 20000 if q else 300000
    for i in range(N):
        c = rng.random()
        if c < 0.35: yield ('bin', rng.choice(['mpf_add', 'mpf_sub', 'mpf_mul', 'mpf_div']), rng.choice(P), rng.choice(P), rng.choice(P), rng.choice(pats), rng.choice(['w', 'w=a', 'w=b', 'a=b']), rng.getrandbits(48))
        elif c < 0.55: yield ('un', rng.choice(['mpf_sqrt', 'mpf_neg', 'mpf_abs', 'mpf_floor', 'mpf_ceil', 'mpf_trunc', 'mpf_set']), rng.choice(P), rng.choice(P), rng.random() < 0.3, rng.getrandbits(48))
        elif c < 0.75: yield ('ui', rng.choice(['mpf_add_ui', 'mpf_sub_ui', 'mpf_ui_sub', 'mpf_mul_ui', 'mpf_div_ui', 'mpf_ui_div', 'mpf_sqrt_ui', 'mpf_mul_2exp', 'mpf_div_2exp']), rng.choice(P), rng.choice(P), rng.random() < 0.3, rng.getrandbits(48))
        elif c < 0.88: yield ('set', rng.choice(['q', 'z', 'd', 'str', 'si', 'ui']), rng.choice(P), rng.getrandbits(48))
        else: yield ('getstr', rng.choice(P[:5]), rng.choice([2, 3, 8, 10, 16, 36, 62, -16, -36, rng.randint(2, 62)]), rng.getrandbits(48))

def make_pair(r, pa, pb, pat):
    ea = r.choice([0, 0, 1, -1, 64, -64, 700, -700, r.randint(-200, 200)])
    ma = rand_mant(r, r.choice([pa, pa + 64, min(pa, 64), pa + 127]))
    pm = max(pa, pb)
    if pat == 'rand': mb = rand_mant(r, r.choice([pb, pb + 64, 30])); eb = ea + r.randint(-80, 80)
    elif pat.startswith('gap'):
        g = {'gap0': 0, 'gap1': 1, 'gap-1': -1, 'gap=prec-1': pm - 1, 'gap=prec': pm, 'gap=prec+1': pm + 1}[pat] * r.choice([1, 1, -1])
        mb = rand_mant(r, pb); eb = ea + ma.bit_length() - mb.bit_length() - g
    elif pat == 'far': mb = rand_mant(r, pb); eb = ea - r.choice([3 * pm, 20000, -3 * pm, -20000])
    elif pat == 'cancel':
        j = r.randint(1, pm + 70); mb = ma; eb = ea; ma = (ma << j) + r.choice([1, ma & 0xff | 1, r.getrandbits(20) | 1]); ea -= j
    elif pat == 'borrow':
        L = r.randint(1, 5) * 64 + r.choice([0, 0, 1, 63]); hi = r.getrandbits(r.randint(1, 100)) | 1
        ma = ((hi << 1 | 1) << L); mb = ((hi << 1) << L) | ((1 << L) - 1); eb = ea
        if r.random() < 0.5: mb -= r.getrandbits(min(L, 40))
    elif pat == 'toppart':
        # the shorter operand is exactly the top limbs of the longer one (same exponent): the difference is the long low part
        ma = rand_mant(r, max(pa, 192) + r.choice([0, 64, 130])); k = r.choice([64, 128, ma.bit_length() // 2, ma.bit_length() - 64]); k = max(1, min(k, ma.bit_length() - 1))
        mb = ma >> k; eb = ea + k
    elif pat == 'equal': mb = ma; eb = ea
    elif pat == 'lowzero': ma = (r.getrandbits(60) | 1) << (64 * r.randint(1, 4)); mb = (r.getrandbits(60) | 1) << (64 * r.randint(1, 4)); eb = ea + r.randint(-70, 70)
    elif pat == 'top1': ma = 1 << (ma.bit_length() - ma.bit_length() % 64 or 64); mb = (1 << (64 * r.randint(1, 3))) + r.getrandbits(10); eb = ea + r.randint(-130, 130)
    else: ma = r.randint(1, 1000); mb = r.randint(1, 1000); ea = eb = 0
    sa = r.choice([1, 1, -1]); sb = r.choice([1, 1, -1])
    if pat == 'toppart' and r.random() < 0.8: sb = sa
    return sa * ma, ea, sb * mb, eb

def build(spec, env):
    kind = spec[0]; r = random.Random(spec[-1])
    if kind == 'getfits':
        import c11
        case = c11.build(('f', spec[1]), env)
        if case is not None: case.tag = ('getfits',) + tuple(case.tag)
        return case
    if kind == 'prec':
        n = r.choice([1, 2, 52, 53, 54, 63, 64, 65, 127, 128, 129, 191, 192, 193, r.randint(1, 4000), 64 * r.randint(1, 60) + r.choice([-1, 0, 1])])
        n2 = r.choice([1, 53, 64, 65, 128, n - 1 if n > 1 else 1, n + 1, r.randint(1, 3000)])
        m = rand_mant(r, r.choice([n, n + 64, 30, n + 200])); e = r.randint(-100, 100)
        ca, a = fcmd('F1', 64 * ((n + 200) // 64 + 2), m, e)
        cmds = ['c mpf_init2 F2 #%d' % n, 'c mpf_get_prec F2', ca, 'c mpf_set F2 F1', 'c mpf_set_prec F2 #%d' % n2, 'c mpf_get_prec F2', 'gf F2', 'c mpf_set_prec F1 #%d' % n2, 'c mpf_get_prec F1', 'gf F1']
        def check(rep, n=n, n2=n2, a=a):
            out = []
            p1 = int(split_reply(rep[1])[0][0]); p2 = int(split_reply(rep[5])[0][0]); p3 = int(split_reply(rep[8])[0][0])
            if p1 < n or p1 % 64 or p1 > n + 127: out.append(('mpf_get_prec:after-init2', 'asked %d got %d' % (n, p1)))
            if p2 < n2 or p2 > n2 + 127 or p3 != p2: out.append(('mpf_get_prec:after-set_prec', 'asked %d got %d / %d' % (n2, p2, p3)))
            for idx, pp in ((6, min(p1, p2)), (9, p3)):
                res, p = fval(rep[idx].split()[0])
                if p != (p2 if idx == 6 else p3): out.append(('mpf_set_prec:precision-field-differs-from-get_prec', 'gf says %d get_prec %d' % (p, p2)))
                # set_prec truncates to the new precision: the value kept is a truncation of a accurate to the smaller of the precisions involved
                err = abs(res - a)
                if a == 0: ok = res == 0
                else: ok = err < abs(a) * Fraction(2) ** (2 - pp) and abs(res) <= abs(a) and (res < 0) == (a < 0)
                if not ok: out.append(('mpf_set_prec:value-not-kept', 'n=%d n2=%d idx=%d' % (n, n2, idx)))
            return out
        return Case(cmds, check, 8, ('prec', min(n, 300) // 8, min(n2, 300) // 8))
    if kind == 'bin':
        _, op, pd, pa, pb, pat, alias, _s = spec
        ma, ea, mb, eb = make_pair(r, pa, pb, pat)
        ca, a = fcmd('F1', pa, ma, ea); cb, b = fcmd('F2', pb, mb, eb)
        if alias == 'a=b': b = a
        if op == 'mpf_div' and b == 0: return None
        W, A, Bf = {'w': ('F0', 'F1', 'F2'), 'w=a': ('F1', 'F1', 'F2'), 'w=b': ('F2', 'F1', 'F2'), 'a=b': ('F0', 'F1', 'F1')}[alias]
        cmds = ['f F0 %d 0 0 0' % pd, ca, cb, 'c %s %s %s %s' % (op, W, A, Bf)]
        exact = {'mpf_add': a + b, 'mpf_sub': a - b, 'mpf_mul': a * b, 'mpf_div': (a / b) if b else None}[op]
        def check(rep, a=a, b=b, exact=exact, op=op, pat=pat, alias=alias):
            v, _ = split_reply(rep[3]); res, p = fval(v[0])
            d = 'pat=%s alias=%s p=%d a=%s b=%s' % (pat, alias, p, float(a) if abs(a) < 1e300 and abs(a) > 1e-300 else 'big', float(b) if abs(b) < 1e300 and abs(b) > 1e-300 else 'big')
            if not within(res, exact, p):
                return [('%s:error-exceeds-2^(2-p)' % op, d + ' relerr=2^%s' % (('%.1f' % math.log2(abs(res - exact) / abs(exact))) if exact else 'inf'))]
            if sigbits(a) <= p and sigbits(b) <= p and sigbits(exact) <= p and res != exact:
                return [('%s:not-exact-although-representable' % op, d)]
        return Case(cmds, check, 1, (op, pd, pa, pb, pat, alias), trivial=(ma == 0 or mb == 0))
    if kind == 'un':
        _, op, pd, pa, alias, _s = spec
        m = rand_mant(r, r.choice([pa, pa + 64, 20])) * r.choice([1, 1, -1]); e = r.choice([0, -1, -64, 64, -m.bit_length(), -m.bit_length() + 3, -m.bit_length() // 2, r.randint(-300, 300)])
        if op == 'mpf_sqrt':
            m = abs(m)
            if r.random() < 0.3: t = r.getrandbits(r.randint(1, 200)) | 1; m = t * t + r.choice([0, 0, 1, -1]); e = 2 * r.randint(-40, 40)
        ca, a = fcmd('F1', pa, m, e)
        W = 'F1' if alias else 'F0'
        cmds = ['f F0 %d 0 0 0' % pd, ca, 'c %s %s F1' % (op, W)]
        def check(rep, a=a, op=op):
            v, _ = split_reply(rep[2]); res, p = fval(v[0]); d = 'p=%d a=%s' % (p, a if abs(a.numerator) < 10 ** 30 and a.denominator < 10 ** 30 else 'big')
            if op == 'mpf_sqrt':
                if a == 0: return None if res == 0 else [('mpf_sqrt:wrong', d)]
                eps = Fraction(1, 1 << max(p - 2, 0))
                if not (res > 0 and a * (1 - eps) ** 2 < res * res < a * (1 + eps) ** 2): return [('mpf_sqrt:error-exceeds-2^(2-p)', d)]
                s = a.numerator * a.denominator
                rt = math.isqrt(s)
                if rt * rt == s and sigbits(a) <= p and sigbits(Fraction(rt, a.denominator)) <= p and res != Fraction(rt, a.denominator): return [('mpf_sqrt:not-exact-although-representable', d)]
                return None
            ex = {'mpf_neg': -a, 'mpf_abs': abs(a), 'mpf_set': a, 'mpf_floor': Fraction(math.floor(a)), 'mpf_ceil': Fraction(math.ceil(a)), 'mpf_trunc': Fraction(int(a))}[op]
            if sigbits(ex) <= p:
                if res != ex: return [('%s:not-exact-although-representable' % op, d + ' got=%s' % (res if abs(res.numerator) < 10 ** 30 else 'big'))]
            else:
                # destination too small for the exact value: only the general accuracy bound and the sign are demanded
                # (floor of a negative / ceil of a positive legitimately round away from zero)
                if not within(res, ex, p) or (res > 0) != (ex > 0): return [('%s:truncation-out-of-bound' % op, d)]
                if op in ('mpf_trunc', 'mpf_set', 'mpf_neg', 'mpf_abs') and abs(res) > abs(ex): return [('%s:truncation-rounds-away-from-zero' % op, d)]
                if op == 'mpf_floor' and res > ex: return [('mpf_floor:result-above-exact', d)]
                if op == 'mpf_ceil' and res < ex: return [('mpf_ceil:result-below-exact', d)]
        return Case(cmds, check, 1, (op, pd, pa, alias, a < 0, abs(a) < 1), trivial=(a == 0))
    if kind == 'ripple':
        _, sub, pd, _s = spec
        pl = plimbs(pd); extra = r.choice([0, 1, 1, 2, 3]); n = pl + 1 + extra; Bn = 1 << (64 * n); pa = 64 * (n + 1)
        e = 64 * r.choice([0, 0, -1, 1, -n, 5]) + r.choice([0, 0, 0, 1, 63]); neg = r.random() < 0.3; alias = r.random() < 0.3
        sgn = -1 if neg else 1
        if sub in ('mul_ui', 'div_ui'):
            u = r.choice([3, 5, 7, 10, 641, M, (1 << 63) + 1, r.getrandbits(64) | 3, r.getrandbits(20) | 3, 2, 1 << 32])
            if sub == 'mul_ui': m = (Bn - 1) // u + r.choice([1, 1, 1, 0, 2])
            else: m = (((1 << (64 * (n - 1))) * r.choice([1, 1, M])) * u + r.choice([0, 1, u - 1])) if r.random() < 0.7 else Bn - 1      # quotient just at / above c*B^k
            ca, a = fcmd('F1', pa if not alias else pd, sgn * m, e)
            cmds = ['f F0 %d 0 0 0' % pd, ca, 'c mpf_%s %s F1 #%d' % (sub, 'F1' if alias else 'F0', u)]; op = 'mpf_' + sub
            ex = a * u if sub == 'mul_ui' else a / u; srcs = [a]
        elif sub == 'mul':
            k2 = r.randint(1, pl + 1); b = gen.nat(r, k2, r.choice(['rand', 'special', 'topmax'])) | 1; m = ((1 << (64 * (n + k2))) - 1) // b + r.choice([1, 1, 0])
            ca, a = fcmd('F1', pa + 64 * k2, sgn * m, e); cb, bv = fcmd('F2', 64 * k2, b, r.choice([0, -64, 7]))
            cmds = ['f F0 %d 0 0 0' % pd, ca, cb, 'c mpf_mul F0 %s %s' % (('F1', 'F2') if r.random() < 0.5 else ('F2', 'F1'))]; op = 'mpf_mul'; ex = a * bv; srcs = [a, bv]
        else:
            nk = r.choice([pl, pl + 1, pl + 1, n]); ones = (1 << (64 * nk)) - 1
            m = r.choice([ones, ones, ones - r.choice([0, 1, M]), 1 << (64 * nk), (1 << (64 * nk)) + 1, 1 << (64 * nk - 1)])
            ca, a = fcmd('F1', 64 * (nk + 1), sgn * m, e)
            if sub in ('add_ui', 'sub_ui', 'ui_sub'):
                u = r.choice([1, 1, 2, M, 1 << 63, r.getrandbits(64) | 1])
                # put the unit of the integer at the lowest limb of the mantissa, one limb below it, or in the middle
                ca, a = fcmd('F1', 64 * (nk + 1), sgn * m, -64 * r.choice([0, 0, 1, nk // 2, nk - 1]))
                call = 'c mpf_ui_sub %s #%d F1' % ('F1' if alias else 'F0', u) if sub == 'ui_sub' else 'c mpf_%s %s F1 #%d' % (sub, 'F1' if alias else 'F0', u)
                cmds = ['f F0 %d 0 0 0' % pd, ca, call]; op = 'mpf_' + sub
                ex = {'add_ui': a + u, 'sub_ui': a - u, 'ui_sub': u - a}[sub]; srcs = [a]
            else:
                b = r.choice([1, 1, 2, M, r.getrandbits(64) | 1, (1 << 64) + 1]) * r.choice([1, -1])
                cb, bv = fcmd('F2', 128, b, e - 64 * r.choice([0, 0, 1, 2]) + (64 * (nk - pl - 1) if r.random() < 0.5 else 0))
                cmds = ['f F0 %d 0 0 0' % pd, ca, cb, 'c mpf_%s F0 F1 F2' % sub]; op = 'mpf_' + sub; ex = a + bv if sub == 'add' else a - bv; srcs = [a, bv]
        def check(rep, ex=ex, op=op, srcs=srcs):
            v, _ = split_reply(rep[len(cmds) - 1]); res, p_ = fval(v[0])
            d = 'p=%d ripple %s' % (p_, ' '.join(c_[:150] for c_ in cmds[1:]))
            if not within(res, ex, p_): return [('%s:error-exceeds-2^(2-p)' % op, d)]
            if all(sigbits(x) <= p_ for x in srcs) and sigbits(ex) <= p_ and res != ex: return [('%s:not-exact-although-representable' % op, d)]
        return Case(cmds, check, 1, ('ripple', sub, pd, extra, alias))
    if kind == 'ui':
        _, op, pd, pa, alias, _s = spec
        m = rand_mant(r, r.choice([pa, pa + 64, 20])) * r.choice([1, 1, -1]); e = r.choice([0, -1, -64, 64, -m.bit_length(), r.randint(-300, 300)])
        u = r.choice([0, 1, 2, 3, 10, M, 1 << 63, r.getrandbits(64), r.getrandbits(20), abs(m) & M if abs(m) < B else 7])
        if op in ('mpf_div_ui',) and u == 0: u = 3
        ca, a = fcmd('F1', pa, m, e)
        if op == 'mpf_ui_div' and a == 0: return None
        if op in ('mpf_mul_2exp', 'mpf_div_2exp'): u = r.choice([0, 1, 63, 64, 65, 128, r.randint(0, 500)])
        W = 'F1' if alias else 'F0'
        if op in ('mpf_ui_sub', 'mpf_ui_div'): call = 'c %s %s #%d F1' % (op, W, u)
        elif op == 'mpf_sqrt_ui': call = 'c mpf_sqrt_ui %s #%d' % (W, u)
        else: call = 'c %s %s F1 #%d' % (op, W, u)
        cmds = ['f F0 %d 0 0 0' % pd, ca, call]
        def check(rep, a=a, u=u, op=op):
            v, _ = split_reply(rep[2]); res, p = fval(v[0]); d = 'p=%d u=%d a=%s' % (p, u, a if abs(a.numerator) < 10 ** 30 and a.denominator < 10 ** 30 else 'big')
            if op == 'mpf_sqrt_ui':
                eps = Fraction(1, 1 << max(p - 2, 0))
                if u == 0: return None if res == 0 else [('mpf_sqrt_ui:wrong', d)]
                if not (res > 0 and u * (1 - eps) ** 2 < res * res < u * (1 + eps) ** 2): return [('mpf_sqrt_ui:error-exceeds-2^(2-p)', d)]
                rt = math.isqrt(u)
                if rt * rt == u and res != rt: return [('mpf_sqrt_ui:not-exact-although-representable', d)]
                return None
            ex = {'mpf_add_ui': lambda: a + u, 'mpf_sub_ui': lambda: a - u, 'mpf_ui_sub': lambda: u - a, 'mpf_mul_ui': lambda: a * u, 'mpf_div_ui': lambda: a / u,
                  'mpf_ui_div': lambda: Fraction(u) / a, 'mpf_mul_2exp': lambda: a * Fraction(2) ** u, 'mpf_div_2exp': lambda: a / Fraction(2) ** u}[op]()
            if op in ('mpf_mul_2exp', 'mpf_div_2exp'):
                if sigbits(ex) <= p:
                    if res != ex: return [('%s:not-exact-although-representable' % op, d)]
                elif not within(res, ex, p) or abs(res) > abs(ex): return [('%s:truncation-out-of-bound' % op, d)]
                return None
            if not within(res, ex, p): return [('%s:error-exceeds-2^(2-p)' % op, d)]
            if sigbits(a) <= p and sigbits(ex) <= p and res != ex: return [('%s:not-exact-although-representable' % op, d)]
        return Case(cmds, check, 1, (op, pd, pa, alias, u if u < 4 else u.bit_length() + 4), trivial=(a == 0))
    if kind == 'set':
        _, what, pd, _s = spec
        if what == 'q':
            n = gen.val(r, 4); dd = abs(gen.val(r, 4, False)) or 1; ex = Fraction(n, dd)
            cmds = ['f F0 %d 0 0 0' % pd, 'q Q1 %s %s' % (hx(ex.numerator), hx(ex.denominator)), 'c mpf_set_q F0 Q1']; opn = 'mpf_set_q'
        elif what == 'z':
            z = r.choice([gen.val(r, 6), gen.signed(r, r.randint(1, 120))]); ex = Fraction(z)
            cmds = ['f F0 %d 0 0 0' % pd, 'z Z1 %s' % hx(z), 'c mpf_set_z F0 Z1']; opn = 'mpf_set_z'
        elif what == 'd':
            dd = rand_double(r)
            while math.isinf(dd): dd = rand_double(r)
            ex = Fraction(dd); cmds = ['f F0 %d 0 0 0' % pd, 'ping', 'c mpf_set_d F0 %s' % dtok(dd)]; opn = 'mpf_set_d'
        elif what in ('si', 'ui'):
            x = r.choice([0, 1, M, 1 << 63, r.getrandbits(64)]) if what == 'ui' else r.choice([0, -1, (1 << 63) - 1, -(1 << 63), r.getrandbits(63) * r.choice([1, -1])])
            ex = Fraction(x); cmds = ['f F0 %d 0 0 0' % pd, 'ping', 'c mpf_set_%s F0 #%d' % (what, x)]; opn = 'mpf_set_' + what
        else:
            base = r.choice([10, 10, 2, 16, 36, 62, 7]); al = models.alphabet(base)
            ip = ''.join(r.choice(al[:base]) for _ in range(r.randint(0, 40))); fp = ''.join(r.choice(al[:base]) for _ in range(r.randint(0, 60)))
            if not ip and not fp: ip = al[1]
            e10 = r.choice([0, 0, 1, -1, 5, -7, 30, -40, 300, -300])
            sgn_ = r.choice(['', '-'])
            # manual: the exponent is written in the base itself, or in decimal when the base argument is negative
            decexp = r.random() < 0.5
            estr = str(e10) if decexp else models.digits(e10, base)
            s = sgn_ + ip + ('.' + fp if fp or r.random() < 0.2 else '') + ((r.choice('eE') if base <= 10 and r.random() < 0.6 else '@') + estr if e10 or r.random() < 0.2 else '')
            mant = Fraction(models.parse_digits(ip or al[0], base)) + (Fraction(models.parse_digits(fp, base), base ** len(fp)) if fp else 0)
            ex = mant * Fraction(base) ** e10 * (-1 if sgn_ else 1)
            cmds = ['f F0 %d 0 0 0' % pd, 'ping', 'c mpf_set_str F0 %s #%d' % (shex(s), -base if decexp else base)]; opn = 'mpf_set_str'
        def check(rep, ex=ex, opn=opn, cmds=cmds):
            v, _ = split_reply(rep[2]); tok = v[-1]; res, p = fval(tok); d = 'p=%d cmd=%s' % (p, cmds[2][:120])
            if opn == 'mpf_set_str' and int(v[0]) != 0: return [('mpf_set_str:rejects-valid-number', d)]
            if not within(res, ex, p): return [('%s:error-exceeds-2^(2-p)' % opn, d)]
            if sigbits(ex) <= p and res != ex: return [('%s:not-exact-although-representable' % opn, d)]
        return Case(cmds, check, 1, (opn, pd, ex < 0, min(sigbits(ex), 500) // 16))
    if kind == 'getstr':
        _, pa, base = spec[:3]; guard = len(spec) == 5
        m = rand_mant(r, r.choice([pa, 20, 64, pa + 64])) * r.choice([1, -1]); e = r.choice([0, -m.bit_length(), -m.bit_length() // 2, r.randint(-400, 400)])
        if guard:
            # prec+1 limbs, the top limb holding 1..6 bits; binary exponent a multiple of 64 so that the limbs are stored as constructed
            pl = plimbs(pa); m = (r.getrandbits(64 * pl + r.randint(1, 6)) | (1 << (64 * pl))) * r.choice([1, -1])
            if r.random() < 0.3: m |= (1 << (64 * pl)) - 1
            e = 64 * r.choice([-pl - 2, -pl - 1, r.randint(-400, 400), r.randint(-4000, 4000), r.randint(-30, 30)])
        ca, a = fcmd('F1', pa, m, e)
        # digits the precision carries: with p = 64*(prec limbs - 1) bits a correct conversion is only accurate to about 2^(2-p) relative, which is
        # one unit of the n-th digit only while base^n <= 2^(p-2) (a value with leading digit base-1 is the worst case)
        carried = max(1, int((64 * (plimbs(pa) - 1) - 2) * math.log(2) / math.log(abs(base))))
        nd = r.choice([0, 1, 2, 5, max(1, carried // 2), max(1, carried - 1), max(1, carried)])
        if guard: nd = max(1, carried - r.choice([0, 0, 0, 1]))
        cmds = [ca, 'c mpf_get_str 0 & #%d #%d F1' % (base, nd)]
        def check(rep, a=a, nd=nd, base=base):
            v, _ = split_reply(rep[1]); s = unhexs(v[0]).decode('latin-1'); ex = int(v[1]); d = 'base=%d n=%d a=%s got=%r exp=%d' % (base, nd, float(a) if 1e-300 < abs(a) < 1e300 else 'big', s[:60], ex)
            neg = s.startswith('-'); ds = s[1:] if neg else s
            if a == 0: return None if ds == '' and ex == 0 else [('mpf_get_str:zero-format', d)]
            al = models.alphabet(base); ab = abs(base)
            if not ds or any(c not in al[:ab] for c in ds) or ds[0] == al[0] or neg != (a < 0): return [('mpf_get_str:bad-digits', d)]
            if nd and len(ds) > nd: return [('mpf_get_str:more-digits-than-requested', d)]
            val = Fraction(sum(al.index(c) * ab ** (len(ds) - 1 - i) for i, c in enumerate(ds)), ab ** len(ds)) * Fraction(ab) ** ex
            n_eff = nd if nd else len(ds)
            if abs(val - abs(a)) > Fraction(ab) ** (ex - n_eff): return [('mpf_get_str:off-by-more-than-one-unit-of-last-digit', d)]
            if not (Fraction(ab) ** (ex - 1) <= val): return [('mpf_get_str:not-normalised', d)]
        return Case(cmds, check, 1, ('getstr', pa, base, nd if nd < 6 else 6 + nd // 20, guard))
    raise ValueError(kind)
