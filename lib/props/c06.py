"""C06 radix conversion is exact in every base and round-trips."""
import random, math
from runner import Case
from rpc import hx, I, split_reply, shex, unhexs
import gen, models
from gen import B, M

PID = 'C06'
LEVEL = 'exploration'
VARIANTS = {'quick': ['asan', 'plain'], 'thorough': ['asan', 'plain', 'asan-tdbg']}
RULE = ('every base 2..62, -2..-36 (and 0 for input) x sizes {0,1,2, limb counts 1..20, GET_STR_DC/PRECOMPUTE +-1, digit counts at '
        'SET_STR_DC/PRECOMPUTE +-2, ladder} x value classes {random, base^k, base^k-1, base^k+1, big_base^j+-1, 2^k, runs}: mpz_get_str '
        '(allocated: block must be strlen+1; caller buffer of exactly sizeinbase+2 bytes, fenced), mpz_out_str through a stream, mpz_sizeinbase, '
        'mpn_get_str/mpn_set_str/mpn_sizeinbase, and the round trip through mpz_set_str/init_set_str/inp_str/mpq_set_str; parse strings: '
        'round-trip output plus mutations (leading zeros, white space at every position class, mixed case, one invalid character inserted, lone '
        'sign, lone prefix, wrong-base prefix). Three-way rule: accepted => exactly the model value and the string is a number; not a number '
        '=> rejected; valid with white space leading/between digits => accepted. distinct = (group, base, size bucket, value class / mutation)')
ASSUMPTIONS = ['digit model cross-checked against int(str, base) and a quadratic model at self-test',
               'white space directly after the sign or inside/after a base-0 prefix may be accepted or rejected (manual concedes); a leading + is not judged']

WS = ' \t\n\v\f\r'
def szb(n):
    return n if n < 24 else 24 + n.bit_length() * 3 + ((n >> (n.bit_length() - 2)) & 1)

def strict_value(t, base):
    """t has no white space. value if t is a number in `base` (0 = C-style prefixes), else None"""
    neg = t.startswith('-')
    if neg: t = t[1:]
    b = base
    if base == 0:
        b = 10
        if t[:2] in ('0x', '0X'): b = 16; t = t[2:]
        elif t[:2] in ('0b', '0B'): b = 2; t = t[2:]
        elif t[:1] == '0': b = 8       # the leading 0 is itself a digit
    v = models.parse_digits(t, b)
    if v is None: return None
    return -v if neg else v

def classify(s, base):
    """('must', v) | ('either', v) | ('reject',) | ('skip',)"""
    if any(ord(c) > 127 or c == '\0' for c in s): return ('skip',)
    t = ''.join(c for c in s if c not in WS)
    if t.startswith('+'): return ('skip',)
    v = strict_value(t, base)
    if v is None: return ('reject',)
    # where is the white space?
    u = s.lstrip(WS)
    i = 1 if u.startswith('-') else 0
    if i < len(u) and u[i] in WS: return ('either', v)
    if base == 0:
        body = u[i:]
        if body[:1] == '0' and len(body) > 1:
            # inside or right after a 0x / 0b prefix
            j = 1
            while j < len(body) and body[j] in WS: j += 1
            if j < len(body) and body[j] in 'xXbB':
                if j > 1: return ('either', v)
                if j + 1 < len(body) and body[j + 1] in WS: return ('either', v)
    return ('must', v)

def make_val(r, base, n, cls):
    bb = abs(base) if base else 10
    bits = 64 * n
    if n == 0: return 0
    if cls == 'rand': return gen.nat(r, n)
    if cls == 'runs': return gen.nat(r, n, 'runs')
    k = max(1, int(bits / math.log2(bb)) - r.randint(0, 2))
    if cls == 'pow': return bb ** k
    if cls == 'powm1': return bb ** k - 1
    if cls == 'powp1': return bb ** k + 1
    if cls == 'bigbase':
        cpl = int(64 / math.log2(bb)); big = bb ** cpl
        j = max(1, n - r.randint(0, 1)); return big ** j + r.choice([-1, 0, 1])
    if cls == 'pow2': return 1 << r.randint(max(0, bits - 64), bits - 1)
    return gen.nat(r, n, 'ones')

VCLS = ['rand', 'runs', 'pow', 'powm1', 'powp1', 'bigbase', 'pow2', 'ones']
BASES = list(range(2, 63)) + list(range(-36, -1))

def specs(rng, tier, wid, nw, env):
    q = tier == 'quick'; th = env.th
    k = 0
    gs = [th.get('GET_STR_DC_THRESHOLD', 10), th.get('GET_STR_PRECOMPUTE_THRESHOLD', 16)]
    sizes = sorted(set([0] + list(range(1, 21)) + gen.around(gs, 1, None, (-1, 0, 1)) + ([30, 45, 64, 100] if q else gen.ladder(21, 3000, 1.35))))
    for base in BASES:
        for n in sizes:
            cl = VCLS if (n <= 6 or not q) else [rng.choice(VCLS), 'powm1']
            for c in cl:
                k += 1
                if k % nw == wid: yield ('conv', base, n, c, rng.getrandbits(48))
    # input thresholds are in digits
    for t in (th.get('SET_STR_DC_THRESHOLD', 668), th.get('SET_STR_PRECOMPUTE_THRESHOLD', 1973)):
        for nd in ([t - 1, t, t + 1] if q else range(t - 2, t + 3)):
            for base in ([2, 3, 10, 16, 36, 62, 7, 32] if q else range(2, 63)):
                k += 1
                if k % nw == wid: yield ('digits', base, nd, rng.choice(['rand', 'max', 'pow', 'lead0']), rng.getrandbits(48))
    if not q:
        for nd in gen.ladder(3000, 1000000, 2.2):
            for base in (10, 3, 16, 62, 36):
                k += 1
                if k % nw == wid: yield ('digits', base, nd, rng.choice(['rand', 'max']), rng.getrandbits(48))
    N = 25000 if q else 400000
    for i in range(N):
        c = rng.random()
        if c < 0.75: yield ('parse', rng.choice([0, 0, 0, 2, 8, 10, 16, 36, 37, 62, rng.randint(2, 62)]), rng.getrandbits(48))
        else: yield ('parseq', rng.choice([0, 0, 10, 16, rng.randint(2, 62)]), rng.getrandbits(48))

def rnd_number_string(r, base):
    """a valid number string in `base` (0: with a prefix style) and its pieces"""
    b = base
    prefix = ''
    if base == 0:
        b, prefix = r.choice([(10, ''), (16, '0x'), (16, '0X'), (2, '0b'), (2, '0B'), (8, '0')])
    v = r.choice([0, 1, b - 1, b, gen.val(r, 3, False), r.getrandbits(r.randint(1, 200))])
    ds = models.digits(v, b if b > 36 else b)
    if base == 0 and b == 10 and ds.startswith('0') and v != 0: pass
    if b <= 36 and r.random() < 0.5: ds = ''.join(c.upper() if r.random() < 0.5 else c for c in ds)
    if base == 0 and b == 10 and v == 0: prefix = ''      # "0" alone is octal zero: same value
    if r.random() < 0.3 and not (base == 0 and b == 10): ds = '0' * r.randint(1, 3) + ds
    return prefix, ds, v, b

def mutate(r, base):
    sign = r.choice(['', '', '-'])
    prefix, ds, v, b = rnd_number_string(r, base)
    s = sign + prefix + ds
    m = r.choice(['none', 'none', 'lead-ws', 'mid-ws', 'trail-ws', 'sign-ws', 'prefix-ws', 'invalid', 'invalid', 'lone-sign', 'lone-prefix', 'double-sign', 'empty', 'wrong-prefix', 'digit=base'])
    w = ''.join(r.choice(WS) for _ in range(r.randint(1, 3)))
    if m == 'lead-ws': s = w + s
    elif m == 'mid-ws':
        i = len(sign + prefix) + r.randint(1, len(ds)); s = s[:i] + w + s[i:]
    elif m == 'trail-ws': s = s + w
    elif m == 'sign-ws': s = (sign or '-') + w + prefix + ds
    elif m == 'prefix-ws':
        if prefix: j = r.randint(1, len(prefix)); s = sign + prefix[:j] + w + prefix[j:] + ds
    elif m == 'invalid':
        i = r.randint(0, len(s)); bad = r.choice(['g', 'z', 'Z', '.', ',', '_', '/', ':', '@', '[', '`', '{', '~', 'x', '+', '-', chr(r.randint(33, 126))])
        s = s[:i] + bad + s[i:]
    elif m == 'lone-sign': s = r.choice(['-', '- ', ' -'])
    elif m == 'lone-prefix': s = sign + r.choice(['0x', '0X', '0b', '0B', '0x ', '0b\t']) + r.choice(['', '', 'g', 'z', '2' if True else ''])
    elif m == 'double-sign': s = '--' + prefix + ds
    elif m == 'empty': s = r.choice(['', ' ', '\n\t'])
    elif m == 'wrong-prefix': s = sign + r.choice(['0x', '0b', '0X']) + ds
    elif m == 'digit=base' and b < 62 and b != 36:
        al = models.AL_LOW if b < 36 else models.AL_62
        i = r.randint(len(sign + prefix), len(s)); s = s[:i] + al[b] + s[i:]
    return s, m

def build(spec, env):
    kind = spec[0]; r = random.Random(spec[-1])
    if kind == 'conv':
        _, base, n, cls, _s = spec
        u = make_val(r, base, n, cls)
        if r.random() < 0.4: u = -u
        ab = abs(base)
        want = models.digits(u, base)
        sib_exact = len(want.lstrip('-'))
        cmds = ['z Z1 %s' % hx(u), 'c mpz_sizeinbase Z1 #%d' % ab, 'c mpz_get_str 0 #%d Z1' % base]
        def sib_ok(g):
            if u == 0: return g == 1
            if ab & (ab - 1) == 0: return g == sib_exact
            return g in (sib_exact, sib_exact + 1)
        # caller buffer of exactly sizeinbase+2 bytes: conservative sizeinbase = exact or exact+1 -> we give exact+1+2 only if the lib says so
        cmds.append('ping')
        cmds.append('wstream -1 0'); cmds.append('c mpz_out_str W #%d Z1' % base); cmds.append('wget')
        # round trip
        rb = ab
        sin = want if base > 0 else want
        cmds += ['c mpz_set_str Z2 %s #%d' % (shex(sin), rb), 'c mpz_init_set_str Z3 %s #%d' % (shex(sin), rb)]
        cmds += ['rstream %s -1 0 1' % shex(sin + r.choice(['', ' ', '\n', ',rest'])), 'c mpz_inp_str Z4 V #%d' % rb]
        nl = gen.nlimbs(u)
        if nl >= 1:
            nd = sib_exact + 1
            cmds += ['l 0 %d %s' % (nl, hx(abs(u))), 'c mpn_sizeinbase L0 #%d #%d' % (nl, ab), 'c mpn_get_str B%d #%d L0 #%d' % (nd + 1, ab, nl)]
            raw = bytes(models.digit_value(c, 62 if ab > 36 else 36) if ab <= 36 else models.AL_62.index(c) for c in (want.lstrip('-') if ab > 36 else want.lstrip('-').lower()))
            lead = r.choice([0, 0, 1, 3]); rawin = bytes(lead) + raw
            outl = int(len(rawin) * math.log2(ab) / 64) + 2
            cmds += ['c mpn_set_str L1:%d %s #%d #%d' % (outl, shex(rawin), len(rawin), ab)]
        def check(rep, u=u, base=base, want=want, nl=nl, ab=ab, cls=cls):
            out = []; d = 'base=%d n=%d cls=%s u=%s' % (base, gen.nlimbs(u), cls, hx(u)[:60])
            v, _ = split_reply(rep[1])
            if not sib_ok(int(v[0])): out.append(('mpz_sizeinbase:wrong', d + ' got=%s exact=%d' % (v[0], sib_exact)))
            sib = int(v[0])
            v, _ = split_reply(rep[2]); got = unhexs(v[0]).decode('latin-1')
            if got != want: out.append(('mpz_get_str:wrong-digits', d + ' got=%s want=%s' % (got[:60], want[:60])))
            if len(got) + 1 > sib + 2: out.append(('mpz_get_str:longer-than-sizeinbase+2', d))
            v, _ = split_reply(rep[5]); ret = int(v[0])
            w = rep[6].split(); wb = unhexs(w[-1]).decode('latin-1')
            if wb != want or ret != len(want): out.append(('mpz_out_str:wrong', d + ' ret=%d got=%s' % (ret, wb[:60])))
            for idx, fn in ((7, 'mpz_set_str'), (8, 'mpz_init_set_str')):
                v, _ = split_reply(rep[idx])
                if int(v[0]) != 0 or I(v[1]) != u: out.append(('%s:roundtrip-wrong' % fn, d + ' ret=%s' % v[0]))
            v, _ = split_reply(rep[10])
            if int(v[0]) != len(want) or I(v[1]) != u: out.append(('mpz_inp_str:roundtrip-wrong', d + ' ret=%s want=%d' % (v[0], len(want))))
            if nl >= 1:
                v, _ = split_reply(rep[12])
                if not sib_ok(int(v[0])): out.append(('mpn_sizeinbase:wrong', d + ' got=%s' % v[0]))
                v, _ = split_reply(rep[13]); cnt = int(v[0]); raw = unhexs(v[1])
                val = 0
                for b_ in raw: val = val * ab + b_
                if val != abs(u) or any(b_ >= ab for b_ in raw) or cnt != len(raw) or cnt > sib_exact + 1: out.append(('mpn_get_str:wrong', d + ' count=%d' % cnt))
                v, _ = split_reply(rep[14]); rn = int(v[0]); L = I(v[1].split('=')[1])
                if (L & ((1 << (64 * rn)) - 1)) != abs(u) or (lead == 0 and rn != nl) or rn < nl: out.append(('mpn_set_str:wrong', d + ' rn=%d nl=%d lead=%d' % (rn, nl, lead)))
            return out
        return Case(cmds, check, 9 if nl else 6, ('conv', base, szb(n), cls, u < 0), trivial=(u == 0))
    if kind == 'digits':
        _, base, nd, cls, _s = spec
        al = models.alphabet(base)
        if cls == 'max': s = al[base - 1] * nd
        elif cls == 'pow': s = al[1] + al[0] * (nd - 1)
        elif cls == 'lead0': s = al[0] * 3 + ''.join(r.choice(al[:base]) for _ in range(nd - 3))
        else: s = r.choice(al[1:base]) + ''.join(r.choice(al[:base]) for _ in range(nd - 1))
        want = models.parse_digits(s, base)
        raw = bytes(al.index(c) for c in s)
        outl = int(nd * math.log2(base) / 64) + 2
        cmds = ['c mpz_set_str Z1 %s #%d' % (shex(s), base), 'c mpn_set_str L1:%d %s #%d #%d' % (outl, shex(raw), nd, base), 'c mpz_get_str 0 #%d Z1' % base]
        def check(rep, want=want, base=base, nd=nd, s=s):
            out = []; d = 'base=%d digits=%d cls=%s' % (base, nd, cls)
            v, _ = split_reply(rep[0])
            if int(v[0]) != 0 or I(v[1]) != want: out.append(('mpz_set_str:wrong-value', d))
            v, _ = split_reply(rep[1]); rn = int(v[0]); L = I(v[1].split('=')[1])
            if (L & ((1 << (64 * rn)) - 1)) != want: out.append(('mpn_set_str:wrong', d))
            v, _ = split_reply(rep[2]); got = unhexs(v[0]).decode('latin-1')
            if got != (s.lstrip(models.alphabet(base)[0]) or '0'): out.append(('mpz_get_str:wrong-digits', d))
            return out
        return Case(cmds, check, 3, ('digits', base, szb(nd), cls))
    if kind == 'parse':
        _, base, _s = spec
        s, m = mutate(r, base)
        cl = classify(s, base)
        if cl[0] == 'skip': return None
        cmds = ['z Z1 %s' % hx(12345), 'c mpz_set_str Z1 %s #%d' % (shex(s), base), 'c mpz_init_set_str Z2 %s #%d' % (shex(s), base)]
        # stream form: the token ends at the first char that cannot continue the number
        term = r.choice(['', ' ', '\n', ',x'])
        st = s.rstrip(WS) if m == 'trail-ws' else s
        embedded = any(c in WS for c in st.lstrip(WS))
        cmds += ['rstream %s -1 0 1' % shex(st + term), 'c mpz_inp_str Z3 V #%d' % base]
        def check(rep, s=s, cl=cl, base=base, m=m, st=st, embedded=embedded):
            out = []; d = 'base=%d str=%r mutation=%s' % (base, s, m)
            for idx, fn in ((1, 'mpz_set_str'), (2, 'mpz_init_set_str')):
                v, _ = split_reply(rep[idx]); ret = int(v[0])
                if ret not in (0, -1): out.append(('%s:bad-return' % fn, d + ' ret=%d' % ret)); continue
                if ret == 0:
                    if cl[0] == 'reject':
                        t = ''.join(c for c in s if c not in WS).lstrip('-')
                        key = 'accepts-prefix-without-digits' if t.lower() in ('0x', '0b') else 'accepts-non-number'
                        out.append(('%s:%s' % (fn, key), d + ' value=%s' % v[1][:40]))
                    elif I(v[1]) != cl[1]: out.append(('%s:wrong-value' % fn, d + ' got=%s want=%s' % (v[1][:40], hx(cl[1])[:40])))
                elif cl[0] == 'must': out.append(('%s:rejects-valid-number' % fn, d))
            # inp_str: judged only where the stream holds one unbroken token
            if not embedded:
                v, _ = split_reply(rep[4]); ret = int(v[0])
                lead = len(st) - len(st.lstrip(WS)); tok = st.lstrip(WS)
                sv = strict_value(tok, base) if tok and not tok.startswith('+') else None
                if sv is not None:
                    if ret != len(st) or I(v[1]) != sv: out.append(('mpz_inp_str:wrong', d + ' ret=%d want=%d got=%s' % (ret, len(st), v[1][:40])))
                elif tok.startswith('+'): pass
                else:
                    # not a number as a whole: it may still start with one (the reader stops at the first foreign character)
                    j = 0
                    best = None
                    for j in range(len(tok), 0, -1):
                        pv = strict_value(tok[:j], base)
                        if pv is not None: best = (j, pv); break
                    if best is None:
                        if ret != 0:
                            t = tok.lstrip('-')
                            key = 'accepts-prefix-without-digits' if t[:2].lower() in ('0x', '0b') else 'accepts-non-number'
                            out.append(('mpz_inp_str:%s' % key, d + ' ret=%d' % ret))
                    # a proper prefix is a number: how far the reader goes is not specified tightly enough to judge
            return out
        return Case(cmds, check, 3, ('parse', base, m, cl[0]))
    if kind == 'parseq':
        _, base, _s = spec
        s1, m1 = mutate(r, base) if r.random() < 0.4 else (None, 'none')
        if s1 is None:
            p, ds, v, b = rnd_number_string(r, base); s1 = r.choice(['', '-']) + p + ds
        two = r.random() < 0.7
        if two:
            p, ds, v, b = rnd_number_string(r, base)
            if v == 0 and r.random() < 0.9: ds = ds + models.alphabet(b if b > 36 else 36)[1]
            s2 = p + ds
            if r.random() < 0.15: s2 = r.choice(['0x', '0b', '', '-', 'q', s2 + '/3'])
            s = s1 + r.choice(['/', '/', ' / ', '/ ']) + s2
        else: s = s1; s2 = None
        t = ''.join(c for c in s if c not in WS)
        if '+' in t: return None
        parts = t.split('/', 1)
        vals = [strict_value(p_, base) if p_ else None for p_ in parts]
        valid = all(x is not None for x in vals)
        if valid and len(vals) == 2 and vals[1] == 0: return None      # zero denominator: undefined
        wsbad = classify(s1, base)[0] == 'either' or (two and (s.split('/', 1)[1][:1] in WS and False))
        cmds = ['c mpq_set_str Q1 %s #%d' % (shex(s), base)]
        def check(rep, s=s, vals=vals, valid=valid, base=base):
            out = []; d = 'base=%d str=%r' % (base, s)
            v, _ = split_reply(rep[0]); ret = int(v[0])
            if ret == 0:
                n_, d_ = v[1].split('/')
                if not valid:
                    key = 'accepts-prefix-without-digits' if any(p_.lstrip('-').lower() in ('0x', '0b') for p_ in ''.join(c for c in s if c not in WS).split('/', 1)) else 'accepts-non-number'
                    out.append(('mpq_set_str:%s' % key, d + ' got=%s' % v[1][:60]))
                elif I(n_) != vals[0] or I(d_) != (vals[1] if len(vals) == 2 else 1): out.append(('mpq_set_str:wrong-value', d + ' got=%s' % v[1][:60]))
            elif ret != -1: out.append(('mpq_set_str:bad-return', d))
            elif valid and not any(c in WS for c in s): out.append(('mpq_set_str:rejects-valid-number', d))
            return out
        return Case(cmds, check, 1, ('parseq', base, valid, two, m1))
    raise ValueError(kind)
