"""C14 results are independent of CPU-specific kernels, tuning tables and build options.

For each build variant V (per-CPU assembly path + tuning table, fat dispatch, alloca modes, assert):
the case streams of the value properties are generated from V's own thresholds, executed on V and on
the generic-C build, judged by the exact Python oracles on V, and the two builds' replies must be
identical command by command; the kernel sweeps are run on V against the limb reference and their
digests compared with the generic-C build."""
import os, sys, random, time, json, re, hashlib, multiprocessing, signal, traceback, argparse, subprocess
import runner, rpc, gen
import build as bld
from sweeputil import parse_sweep

PID = 'C14'
LEVEL = 'exploration'
REF = 'none'
Q_VARIANTS = ['plain', 'fat', 'tdbg', 'reent', 'assert'] + ['cpu-' + c for c in bld.CPUS]
T_VARIANTS = ['plain', 'fat', 'tdbg', 'reent', 'assert', 'pinned'] + ['cpu-' + c for c in bld.CPUS]
MODS = ['c01', 'c02', 'c03', 'c06', 'c07', 'c08', 'c09', 'c10', 'c11', 'c12', 'c13', 'c16', 'c19']
RULE = ('variants: every shipped x86_64 CPU path with its tuning table (--build=<cpu>; all 20 in both tiers), --enable-fat, '
        '--enable-alloca=debug / malloc-reentrant, --enable-assert, default, against the generic-C build (--build=none). Per variant: the case '
        'streams of C01,C02,C03,C06-C13,C16,C19 generated from that variant\'s own gmp-mparam.h (so its crossovers are straddled), run on the variant '
        'and on generic C, judged by the Python oracles and compared reply by reply; kernel sweeps (add/sub/shift/copy/logic/mul_1/addmul_1/'
        'submul_1/divrem_1/mod_1/divexact_1/by3c/modexact, n=1..70 / 1..400) against the limb reference with fenced operands, digests compared '
        'with generic C; fat build: every pointer of __gmpn_cpuvec resolved to its symbol and checked against the host CPU (vendor, cpuinfo flags). '
        'An abort (assert / tal-debug) where generic C returns a value is a difference. distinct = (variant, module, case tag)')
ASSUMPTIONS = ['kernels needing ISA extensions the host lacks cannot be executed here', 'the generic-C build is itself judged by the oracles (it was wrong once: F5)']

SUFFIX_NEEDS = {'fat': [], 'x86_64': [], 'core2': ['ssse3'], 'penryn': ['sse4_1'], 'nehalem': ['sse4_2', 'popcnt'], 'westmere': ['sse4_2', 'popcnt'], 'sandybridge': ['avx'],
                'ivybridge': ['avx'], 'haswell': ['avx2', 'bmi2'], 'haswellavx': ['avx2', 'bmi2'], 'broadwell': ['avx2', 'bmi2', 'adx'], 'skylake': ['avx2', 'bmi2', 'adx'],
                'skylakeavx': ['avx2', 'bmi2', 'adx'], 'atom': ['ssse3', 'movbe'], 'netburst': ['sse3'], 'nano': ['ssse3']}
PARTIAL = {'mpn_gcd', 'mpn_gcdext', 'mpn_sqrtrem', 'mpn_set_str', 'mpn_get_str', 'mpn_divrem', 'mpn_divrem_2', 'mpn_gcd_1'}
AMD = {'k8', 'k10', 'k102', 'bobcat', 'bulldozer', 'piledriver'}

class DiffWorker(runner.Worker):
    def __init__(self, *a):
        runner.Worker.__init__(self, *a); self.rec = {}; self.idx = 0
    def judge(self, case, replies):
        runner.Worker.judge(self, case, replies)
        self.rec[id(case)] = replies

def job(a):
    tier, variant, modname, wid, nw, sd, limit = a
    signal.signal(signal.SIGINT, signal.SIG_IGN)
    t0 = time.time()
    mod = __import__(modname)
    wv = DiffWorker(mod, 'quick', variant, wid, nw, sd)
    wn = DiffWorker(mod, 'quick', REF, wid, nw, sd)
    res = wv.res
    try:
        cases = []
        # cases a module marks as relevant to build options (not counted against the per-module limit)
        if wid == 0 and hasattr(mod, 'c14_priority'):
            import inspect
            pr = mod.c14_priority(random.Random(sd ^ 0xc14), tier, wv.env) if len(inspect.signature(mod.c14_priority).parameters) >= 3 else mod.c14_priority(random.Random(sd ^ 0xc14), tier)
            for spec in pr:
                case = mod.build(spec, wv.env)
                if case is not None: case.spec = spec; cases.append(case)
        limit += len(cases)
        for spec in mod.specs(wv.rng, 'quick', wid, nw, wv.env):
            if spec[0] in ('sweep', 'battery', 'hugeidx', 'sieve', 'slowlc'): continue
            # the huge classes of the value checks (20000-limb gcds, ...) cost seconds each in the Python oracle: they stay in their own check
            if spec[0] in ('z', 'n') and len(spec) > 2 and isinstance(spec[1], int) and isinstance(spec[2], int) and max(spec[1], spec[2]) > 5000: continue
            case = mod.build(spec, wv.env)
            if case is None: continue
            case.spec = spec
            if sum(len(c) for c in case.cmds) > 3_000_000: continue
            cases.append(case)
            if len(cases) >= limit: break
        # run on both builds, batch by batch
        for w in (wv, wn):
            pending = []; n = 0
            for c in cases:
                pending.append(c); n += len(c.cmds)
                if n >= runner.BATCH_CMDS: w.flush(pending); pending = []; n = 0
            w.flush(pending)
            if w.drv is not None: w.drv.close()
        for c in cases:
            ra = wv.rec.get(id(c)); rb = wn.rec.get(id(c))
            if ra is None or rb is None: continue
            # only library calls are compared; mpn functions whose output areas are partly scratch / destroyed inputs are judged by the oracle alone
            cmp = [i for i in range(min(len(ra), len(rb))) if c.cmds[i].startswith('c ') and runner.cmd_fn(c.cmds[i]) not in PARTIAL]
            if any(ra[i] != rb[i] for i in cmp):
                k = next(i for i in cmp if ra[i] != rb[i])
                wv.fail('differs-from-generic-C:%s' % runner.cmd_fn(c.cmds[k]), 'variant %s vs %s at %r: %s | %s' % (variant, REF, c.cmds[k][:160], ra[k][:200], rb[k][:200]), c, ra)
        # the generic build's own failures (oracle) are reported too
        for f in wn.res['failures']:
            f['variant'] = REF; res['failures'].append(f)
        res['harness_errors'] += wn.res['harness_errors']; res['unrepro'] += wn.res['unrepro']; res['notes'] += wn.res['notes']
        res['evaluations'] += wn.res['evaluations']
    except Exception as ex:
        res['harness_errors'].append('job %s/%s/%d: %s\n%s' % (variant, modname, wid, ex, traceback.format_exc()[-1200:]))
    res['wall'] = time.time() - t0
    res['tags'] = {hash((variant, modname, t)) & 0xffffffffffff for t in res['tags']}
    return res

def sweep_job(a):
    tier, variant, grp, lo, hi, sd = a
    signal.signal(signal.SIGINT, signal.SIG_IGN)
    out = dict(variant=variant, grp=grp, lo=lo, hi=hi, err=None)
    try:
        d = rpc.Drv(bld.ensure_driver(variant))
        rep = d.batch(['sweep %s %d %d %d' % (grp, lo, hi, sd)], timeout=1500)[0]
        d.close()
        out['calls'], out['mism'], out['first'], out['digs'] = parse_sweep(rep)
    except rpc.DrvDied as e:
        out['err'] = runner.report_key(e.stderr, e.crashline, 'sweep-' + grp); out['stderr'] = e.stderr[-3000:]
    return out

def fat_audit(failures, cov):
    exe = bld.ensure_driver('fat')
    d = rpc.Drv(exe); rep = d.batch(['cpuvec'])[0]; d.close()
    ptrs = [int(x, 16) for x in rep.split('|')[0].split()[2:]]
    syms = {}
    for l in subprocess.run(['nm', exe], stdout=subprocess.PIPE, text=True).stdout.splitlines():
        p = l.split()
        if len(p) == 3 and p[2].startswith('__gmpn_'): syms.setdefault(int(p[0], 16), []).append(p[2])
    flags = bld.host_flags(); vendor = ''
    for l in open('/proc/cpuinfo'):
        if l.startswith('vendor_id'): vendor = l.split(':')[1].strip(); break
    chosen = []
    for p in ptrs:
        names = syms.get(p, [])
        m = None
        for nme in names:
            m = re.match(r'__gmpn_(\w+?)_(fat|x86_64|k8|k10|k102|bobcat|bulldozer|piledriver|core2|penryn|nehalem|westmere|sandybridge|ivybridge|haswell|haswellavx|broadwell|skylake|skylakeavx|atom|netburst|nano)$', nme)
            if m: break
        if not m:
            failures.append(dict(key='fat:cpuvec-entry-not-a-kernel-symbol', detail='pointer %#x resolves to %s' % (p, names), variant='fat', spec=None, cmds=['cpuvec'], replies=[rep], stderr=''))
            continue
        fn, suf = m.group(1), m.group(2); chosen.append('%s_%s' % (fn, suf))
        if suf in AMD and vendor != 'AuthenticAMD':
            failures.append(dict(key='fat:dispatches-to-foreign-vendor-kernel:%s' % suf, detail='%s selected on %s' % (nme, vendor), variant='fat', spec=None, cmds=['cpuvec'], replies=[rep], stderr=''))
        missing = [f for f in SUFFIX_NEEDS.get(suf, []) if f not in flags]
        if missing:
            failures.append(dict(key='fat:dispatches-to-kernel-needing-missing-isa:%s' % suf, detail='%s needs %s' % (nme, missing), variant='fat', spec=None, cmds=['cpuvec'], replies=[rep], stderr=''))
    cov['fat_cpuvec'] = chosen; cov['host_vendor'] = vendor

def main(argv):
    ap = argparse.ArgumentParser(); ap.add_argument('--tier', default=os.environ.get('VERIF_TIER', 'quick')); ap.add_argument('--replay'); ap.add_argument('--variants')
    a = ap.parse_args(argv)
    import c14
    t0 = time.time()
    if a.replay:
        j = json.load(open(a.replay)); modname = j.get('module')
        if not modname:
            print('INCONCLUSIVE property=C14 reason=replay file has no module'); sys.exit(2)
        mod = __import__(modname); mod.PID = PID
        return runner.replay(mod, a.replay)
    q = a.tier == 'quick'
    variants = a.variants.split(',') if a.variants else (Q_VARIANTS if q else T_VARIANTS)
    try:
        bld.ensure_variants(variants + [REF])
        for v in variants + [REF]: bld.ensure_driver(v)
    except bld.BuildError as e:
        runner.finish(PID, a.tier, LEVEL, [], dict(evaluations=0, distinct_nontrivial=0, rule=RULE, samples=[]), ASSUMPTIONS, t0, inconclusive='build failed: %s' % e)
    sd = runner.seed()
    nw = 2 if q else 8
    limit = 150 if q else 2500
    jobs = [(a.tier, v, m, w, nw, sd, limit) for v in variants for m in MODS for w in range(nw)]
    random.Random(sd).shuffle(jobs)
    sjobs = []
    for v in variants + [REF]:
        for grp in ('aors', 'logic', 'mul1', 'div1', 'kern2'):
            rngs = [(1, 24), (25, 48), (49, 70)] if q else [(1, 40), (41, 100), (101, 200), (201, 300), (301, 400)]
            for lo, hi in rngs: sjobs.append((a.tier, v, grp, lo, hi, sd & 0xffffffff))
    with multiprocessing.get_context('fork').Pool(runner.NWORK) as pool:
        sres = pool.map_async(sweep_job, sjobs, chunksize=1)
        results = pool.map(job, jobs, chunksize=1)
        sres = sres.get()
    agg = runner.aggregate([(j[2], j[0], j[1], j[3], j[4], j[5]) for j in jobs], results)
    for f, jb in ((f, None) for f in agg['failures']): pass
    # attach the module to each failure for replay
    for r_, jb in zip(results, jobs):
        for f in r_['failures']: f['module'] = jb[2]
    failures = agg['failures']
    # sweeps
    ref = {}; kcalls = 0; kfn = set()
    for s in sres:
        if s['err']:
            failures.append(dict(key='kernel-sweep:%s' % s['err'], detail='variant %s group %s n=%d..%d' % (s['variant'], s['grp'], s['lo'], s['hi']), variant=s['variant'], spec=None, cmds=['sweep %s %d %d' % (s['grp'], s['lo'], s['hi'])], replies=[], stderr=s.get('stderr', '')))
            continue
        kcalls += s['calls']
        if s['mism']:
            for fst in s['first'].split(';')[:4]:
                if fst and fst != '-':
                    failures.append(dict(key='kernel-vs-limb-reference:%s' % fst.split(':')[0], detail='variant %s: %s' % (s['variant'], fst), variant=s['variant'], spec=None, cmds=['sweep %s %d %d' % (s['grp'], s['lo'], s['hi'])], replies=[], stderr=''))
        if s['variant'] == REF: ref[(s['grp'], s['lo'])] = s['digs']
    for s in sres:
        if s['err'] or s['variant'] == REF: continue
        rd = ref.get((s['grp'], s['lo']))
        if rd is None: continue
        for fn, (dg, n) in s['digs'].items():
            kfn.add(fn)
            # a different call count means the sweep legitimately ran the function on a different set of sizes (mpn_sqr_basecase is only
            # valid below the build's SQR_KARATSUBA_THRESHOLD); every call was judged against the limb reference in its own build anyway
            if fn in rd and rd[fn][1] == n and rd[fn][0] != dg:
                failures.append(dict(key='kernel-digest-differs-from-generic-C:%s' % fn, detail='variant %s group %s n=%d..%d: %s/%d vs %s/%d' % (s['variant'], s['grp'], s['lo'], s['hi'], dg, n, rd[fn][0], rd[fn][1]), variant=s['variant'], spec=None,
                                     cmds=['sweep %s %d %d' % (s['grp'], s['lo'], s['hi'])], replies=[], stderr=''))
    cov = dict(evaluations=agg['evaluations'] + kcalls, api_calls=agg['evaluations'], kernel_calls=kcalls, kernel_functions=sorted(kfn), distinct_nontrivial=len(agg['tags']),
               rule=RULE, samples=agg['samples'][:8], variants=variants, reference=REF, modules=MODS, per_variant=agg['per_variant'], notes=agg['notes'][:10],
               unreproduced_driver_deaths=agg['unrepro'], tree=bld.tree_hash(),
               variant_cflags={v: bld.variant_cflags(v) for v in variants + [REF]},
               thresholds_seen={v: {k: bld.mparam(v).get(k) for k in ('MUL_KARATSUBA_THRESHOLD', 'MUL_TOOM3_THRESHOLD', 'MUL_FFT_FULL_THRESHOLD', 'DC_DIV_QR_THRESHOLD', 'GCD_DC_THRESHOLD', 'SET_STR_DC_THRESHOLD')} for v in variants})
    inconc = None
    if 'fat' in variants:
        try: fat_audit(failures, cov)
        except Exception as e: inconc = 'fat audit failed: %s' % e
    if agg['unrepro']: inconc = 'driver died without reproduction'
    runner.finish(PID, a.tier, LEVEL, failures, cov, ASSUMPTIONS, t0, harness_errors=agg['harness_errors'], inconclusive=inconc)

def build(spec, env):
    raise NotImplementedError
