"""C20 C++ class expressions evaluate to the same values as the C functions.

Generated C++ programs: for each random well-typed expression tree the program holds (1) the expression-template
statement and (2) the step-by-step evaluation with the C functions into separate temporaries; both results are
printed and must be identical, and for mpz/mpq trees the Python model gives a third, independent value."""
import os, sys, random, time, json, re, subprocess, shutil, math, argparse, traceback
from fractions import Fraction
from concurrent.futures import ThreadPoolExecutor
import runner, gen, models
import build as bld

PID = 'C20'
LEVEL = 'exploration'
RULE = ('[also: mixed-class trees (mpz operands inside mpq trees, mpz/mpq inside mpf trees, promoted by the templates; the C evaluation converts with mpq_set_z/mpf_set_z/mpf_set_q at that node)] generated programs of ~60 statements each: random expression trees (depth <= 4) over mpz_class / mpq_class / mpf_class variables, sub-'
        'expressions and int/unsigned/long/unsigned long/double literals on either side (every operator node has a class-typed operand; only integer-'
        'valued doubles next to mpz_class), operators + - * / % & | ^ ~ << >> unary -, abs, sqrt, assignment targets that occur inside the tree and '
        'compound assignments; each statement is evaluated (1) by the expression templates and (2) step by step with the C functions (/ = tdiv_q, % = '
        'tdiv_r, >> = fdiv_q_2exp, conversions by mpz_set_si/ui/d, mpq_set_*), printed in hex and compared; mpz/mpq trees also against Python ints/'
        'Fractions; mpf trees (all at one precision) must agree within 2^(3-p); plus constructors from strings (std::invalid_argument iff the C '
        'function returns -1), get_str/get_si/get_ui/get_d/fits_*, cmp/sgn/comparison operators, operator<< under dec/hex/oct/showbase/showpos/'
        'uppercase/setw/left/right/internal against gmp_snprintf with the equivalent flags, operator>>; plus built-in-operand edge programs: every operator and comparison (+ - * / % & | ^, compound forms, l - x and l / x into x itself) with an int/unsigned/long/unsigned long/double operand on either side x the extreme values of that type (INT_MIN.., LONG_MIN, ULONG_MAX, 2^63 as double, ...) x mpz values 0, +-1, +-2^31, +-2^63, +-2^64 and neighbours (mpq likewise), looped at run time and compared with the C functions; a signal is reported with the operator, type and operands. Compiled with g++ -O1 -fsanitize=address,'
        'undefined against the --enable-cxx build. distinct = (operator, operand kinds, aliased target?, class)')
ASSUMPTIONS = ['operator>> on mpz_class is floor division by 2^n (mpz_fdiv_q_2exp), as GMP documents', 'trees beyond depth 4 are not explored']

LITK = ['int', 'unsigned', 'long', 'ulong', 'double']

class Node:
    __slots__ = ('op', 'kids', 'val', 'kind', 'lit')
    def __init__(self, op, kids=(), val=None, kind='c', lit=None):
        self.op = op; self.kids = list(kids); self.val = val; self.kind = kind; self.lit = lit

def lit_node(r, cls):
    k = r.choice(LITK)
    if k == 'int': v = r.choice([0, 1, -1, 2, -7, 100, 2147483647, -2147483648, r.randint(-1000, 1000)]); s = '(int)(%d)' % v if v != -2147483648 else '(int)(-2147483647-1)'
    elif k == 'unsigned': v = r.choice([0, 1, 3, 4294967295, r.randint(0, 100000)]); s = '%uu' % v
    elif k == 'long': v = r.choice([0, -1, 5, (1 << 63) - 1, -(1 << 63), r.getrandbits(62) * r.choice([1, -1])]); s = '(long)(%dL)' % v if v != -(1 << 63) else '(long)(-9223372036854775807L-1)'
    elif k == 'ulong': v = r.choice([0, 1, (1 << 64) - 1, 1 << 63, r.getrandbits(64)]); s = '%luUL' % v
    else:
        if cls == 'z': v = float(r.choice([0, 1, -3, 1 << 40, -(1 << 52), r.randint(-10 ** 6, 10 ** 6), 1 << 70])); s = repr(v) if abs(v) < 1e15 else '%s' % v.hex()
        else: v = r.choice([0.5, -0.25, 3.0, 1.75, -1e10, float(r.randint(-999, 999)) / 8]); s = v.hex()
        s = '(double)(%s)' % s
    return Node('lit', val=v, kind=k, lit=s)

SUBCLS = {'q': ['z'], 'f': ['z', 'q'], 'z': []}
def gen_tree(r, cls, depth, vars_, mixed=None):
    """random tree whose value has class cls; every operator node has a class-typed operand.  mixed = {class: variable names}: one operand of
    a + - * / node may then be a tree of a *lower* class (mpz inside mpq, mpz/mpq inside mpf), which the expression templates promote; it is
    wrapped in a 'cast' node so that the step-by-step evaluation converts with mpq_set_z / mpf_set_z / mpf_set_q at exactly that point."""
    if depth == 0 or r.random() < 0.25:
        return Node('var', val=r.choice(vars_ if not isinstance(vars_, dict) else vars_[cls]))
    if isinstance(vars_, dict): mixed = vars_; vars_ = mixed[cls]
    ops = {'z': ['+', '-', '*', '/', '%', '&', '|', '^', '~', 'neg', 'abs', '<<', '>>', 'sqrt'], 'q': ['+', '-', '*', '/', 'neg', 'abs', '<<', '>>'], 'f': ['+', '-', '*', '/', 'neg', 'abs', 'sqrt']}[cls]
    op = r.choice(ops)
    if op in ('~', 'neg', 'abs', 'sqrt'): return Node(op, [gen_tree(r, cls, depth - 1, vars_, mixed)])
    if op in ('<<', '>>'): return Node(op, [gen_tree(r, cls, depth - 1, vars_, mixed), Node('lit', val=r.choice([0, 1, 5, 63, 64, 65, 130]), kind='shift')])
    a = gen_tree(r, cls, depth - 1, vars_, mixed)
    c = r.random()
    if mixed and SUBCLS[cls] and op in ('+', '-', '*', '/') and c < 0.4:
        sub = r.choice(SUBCLS[cls])
        b = Node('cast', [gen_tree(r, sub, max(depth - 1, r.randint(0, 2)), mixed[sub], mixed)], kind=sub)
        if r.random() < 0.5: a, b = b, a
        return Node(op, [a, b])
    if c < 0.3: b = lit_node(r, cls)
    else: b = gen_tree(r, cls, depth - 1, vars_, mixed)
    if b.op == 'lit' and r.random() < 0.5: a, b = b, a
    return Node(op, [a, b])

def evaluate(n, env, cls):
    """Python model value (int or Fraction); raises ZeroDivisionError/ValueError for undefined trees; None for mpf"""
    if n.op == 'var': return env[n.val]
    if n.op == 'lit':
        v = n.val
        if isinstance(v, float): return int(v) if cls == 'z' else Fraction(v)
        return v if cls == 'z' else Fraction(v)
    if n.op == 'cast': return Fraction(evaluate(n.kids[0], env, n.kind))
    k = [evaluate(x, env, cls) for x in n.kids]
    if n.op == '+': return k[0] + k[1]
    if n.op == '-': return k[0] - k[1]
    if n.op == '*': return k[0] * k[1]
    if n.op == '/':
        if k[1] == 0: raise ZeroDivisionError
        return models.tdiv(k[0], k[1])[0] if cls == 'z' else k[0] / k[1]
    if n.op == '%':
        if k[1] == 0: raise ZeroDivisionError
        return models.tdiv(k[0], k[1])[1]
    if n.op == '&': return k[0] & k[1]
    if n.op == '|': return k[0] | k[1]
    if n.op == '^': return k[0] ^ k[1]
    if n.op == '~': return ~k[0]
    if n.op == 'neg': return -k[0]
    if n.op == 'abs': return abs(k[0])
    if n.op == '<<': return k[0] << k[1] if cls == 'z' else k[0] * (1 << int(k[1]))
    if n.op == '>>': return k[0] >> k[1] if cls == 'z' else k[0] / (1 << int(k[1]))
    if n.op == 'sqrt':
        if k[0] < 0: raise ValueError
        if cls == 'z': return math.isqrt(k[0])
        return None
    raise ValueError(n.op)

def cxx(n):
    if n.op == 'var': return n.val
    if n.op == 'lit': return n.lit if n.kind != 'shift' else '%dUL' % n.val
    if n.op == 'cast': return cxx(n.kids[0])
    k = [cxx(x) for x in n.kids]
    if n.op in ('~',): return '(~%s)' % k[0]
    if n.op == 'neg': return '(-%s)' % k[0]
    if n.op in ('abs', 'sqrt'): return '%s(%s)' % (n.op, k[0])
    return '(%s %s %s)' % (k[0], n.op, k[1])

PFX = {'z': 'mpz', 'q': 'mpq', 'f': 'mpf'}
def cstep(n, cls, out, ctr, prec):
    """emit C statements computing node n into a fresh temporary; returns its name"""
    ctr[0] += 1; t = 't%d' % ctr[0]; P = PFX[cls]
    if len(ctr) > 1: ctr[1].append(P)
    out.append('%s_t %s; %s;' % (P, t, 'mpf_init2(%s, %d)' % (t, prec) if cls == 'f' else '%s_init(%s)' % (P, t)))
    if n.op == 'cast':
        k = cstep(n.kids[0], n.kind, out, ctr, prec)
        out.append('%s_set_%s(%s, %s);' % (P, n.kind, t, k)); return t
    if n.op == 'var': out.append('%s_set(%s, %s.get_%s_t());' % (P, t, n.val, P)); return t
    if n.op == 'lit':
        v = n.val
        if n.kind in ('int', 'long'): out.append({'z': 'mpz_set_si(%s, %s);', 'q': 'mpq_set_si(%s, %s, 1);', 'f': 'mpf_set_si(%s, %s);'}[cls] % (t, n.lit))
        elif n.kind in ('unsigned', 'ulong'): out.append({'z': 'mpz_set_ui(%s, %s);', 'q': 'mpq_set_ui(%s, %s, 1);', 'f': 'mpf_set_ui(%s, %s);'}[cls] % (t, n.lit))
        else: out.append('%s_set_d(%s, %s);' % (P, t, n.lit))
        return t
    ks = [cstep(x, cls, out, ctr, prec) if not (n.op in ('<<', '>>') and i == 1) else None for i, x in enumerate(n.kids)]
    fn = {('z', '+'): 'mpz_add', ('z', '-'): 'mpz_sub', ('z', '*'): 'mpz_mul', ('z', '/'): 'mpz_tdiv_q', ('z', '%'): 'mpz_tdiv_r', ('z', '&'): 'mpz_and', ('z', '|'): 'mpz_ior', ('z', '^'): 'mpz_xor',
          ('q', '+'): 'mpq_add', ('q', '-'): 'mpq_sub', ('q', '*'): 'mpq_mul', ('q', '/'): 'mpq_div', ('f', '+'): 'mpf_add', ('f', '-'): 'mpf_sub', ('f', '*'): 'mpf_mul', ('f', '/'): 'mpf_div'}
    if (cls, n.op) in fn: out.append('%s(%s, %s, %s);' % (fn[(cls, n.op)], t, ks[0], ks[1]))
    elif n.op == '~': out.append('mpz_com(%s, %s);' % (t, ks[0]))
    elif n.op == 'neg': out.append('%s_neg(%s, %s);' % (P, t, ks[0]))
    elif n.op == 'abs': out.append('%s_abs(%s, %s);' % (P, t, ks[0]))
    elif n.op == 'sqrt': out.append('%s_sqrt(%s, %s);' % (P, t, ks[0]))
    elif n.op == '<<': out.append('%s_mul_2exp(%s, %s, %d);' % (P, t, ks[0], n.kids[1].val))
    elif n.op == '>>': out.append(('mpz_fdiv_q_2exp(%s, %s, %d);' if cls == 'z' else '%s_div_2exp(%%s, %%s, %%d);' % P) % (t, ks[0], n.kids[1].val))
    return t

def sig(n):
    if n.op in ('var', 'lit'): return n.op if n.op == 'var' else n.kind
    if n.op == 'cast': return 'promoted-' + n.kind + ('-var' if n.kids[0].op == 'var' else '-expr')
    return n.op
def signatures(n, target, acc):
    if n.op == 'cast': signatures(n.kids[0], target, acc); return
    if n.op not in ('var', 'lit'):
        acc.add((n.op, tuple(sig(k) for k in n.kids), target in uses(n)))
        for k in n.kids: signatures(k, target, acc)
def uses(n):
    if n.op == 'var': return {n.val}
    s = set()
    for k in n.kids: s |= uses(k)
    return s

HEADER = r'''
#include <cstdio>
#include <cstdlib>
#include <cstring>
#include <string>
#include <sstream>
#include <iomanip>
#include <iostream>
#include <stdexcept>
#include "mpirxx.h"
using namespace std;
extern "C" { void __mpir_verif_hit (int) {} void __mpir_verif_evt (int, long, long, long, long) {} void __mpir_verif_point (int) {} }
static void pz(const char *tag, int id, mpz_srcptr a) { char *s = mpz_get_str(NULL, 16, a); printf("%s %d %s\n", tag, id, s); free(s); }
static void pq(const char *tag, int id, mpq_srcptr a) { char *s = mpz_get_str(NULL, 16, mpq_numref(a)); char *d = mpz_get_str(NULL, 16, mpq_denref(a)); printf("%s %d %s/%s\n", tag, id, s, d); free(s); free(d); }
static void pf_(const char *tag, int id, mpf_srcptr a) { mp_exp_t e; char *s = mpf_get_str(NULL, &e, 16, 0, a); printf("%s %d %s@%ld\n", tag, id, s[0] ? s : "0", (long) e); free(s); }
'''

def gen_program(r, pid):
    """returns (source, expectations dict id -> (cls, python value or None, description))"""
    L = [HEADER, 'int main() {', 'mpf_set_default_prec(256);']
    exp = {}; sigs = set()
    sid = 0
    for cls in ('z', 'z', 'q', 'f'):
        names = ['a', 'b', 'c', 'd']
        L.append('{')
        vals = {}
        for nme in names:
            if cls == 'z': v = r.choice([gen.val(r, 3), gen.val(r, 1), r.randint(-9, 9)]); L.append('mpz_class %s("%d");' % (nme, v))
            elif cls == 'q': v = Fraction(gen.val(r, 2), abs(gen.val(r, 2, False)) or 1); L.append('mpq_class %s("%d/%d");' % (nme, v.numerator, v.denominator))
            else: v = Fraction(r.randint(-10 ** 6, 10 ** 6), 1 << r.randint(0, 20)); L.append('mpf_class %s("%d", 256); %s /= %d;' % (nme, v.numerator, nme, v.denominator))
            vals[nme] = v
        # lower-class variables for mixed-class (promoting) expressions
        mixed = {cls: names}
        if cls in ('q', 'f'):
            mixed['z'] = ['za', 'zb']
            for nme in mixed['z']:
                v = r.choice([gen.val(r, 2), gen.val(r, 1), r.randint(-9, 9), 1 << 64]); L.append('mpz_class %s("%d");' % (nme, v)); vals[nme] = v
        if cls == 'f':
            mixed['q'] = ['qa', 'qb']
            for nme in mixed['q']:
                v = Fraction(gen.val(r, 1), abs(gen.val(r, 1, False)) or 1); L.append('mpq_class %s("%d/%d");' % (nme, v.numerator, v.denominator)); vals[nme] = v
        nst = 20 if cls != 'f' else 12
        made = 0; tries = 0
        while made < nst and tries < 400:
            tries += 1
            tree = gen_tree(r, cls, r.randint(1, 4), names, mixed if cls != 'z' and r.random() < 0.6 else None)
            if tree.op == 'var': continue
            target = r.choice(names)
            mode = r.choice(['=', '=', '=', 'op='])
            op2 = r.choice({'z': ['+', '-', '*', '/', '%', '&', '|', '^'], 'q': ['+', '-', '*', '/'], 'f': ['+', '-', '*', '/']}[cls])
            full = tree if mode == '=' else Node(op2, [Node('var', val=target), tree])
            val = None
            if cls != 'f':
                try:
                    val = evaluate(full, vals, cls)
                    evaluate(tree, vals, cls)
                except (ZeroDivisionError, ValueError): continue
                except OverflowError: continue
            if cls != 'f' and val is not None and (abs(val).bit_length() if cls == 'z' else max(abs(val.numerator).bit_length(), val.denominator.bit_length())) > 40000: continue
            if cls == 'f':
                # keep magnitudes sane and avoid sqrt of negatives in the float domain: evaluate with Fractions where possible
                try:
                    chk = feval(full, vals)
                    if chk is None or abs(chk) > 1e200 or (chk != 0 and abs(chk) < 1e-200): continue
                except (ZeroDivisionError, ValueError, OverflowError): continue
            sid += 1; made += 1
            signatures(full, target, sigs)
            stmts = []; ctr = [0, []]
            # (2) step by step first, from the current variable values
            t = cstep(full, cls, stmts, ctr, 256)
            L.append('{ ' + ' '.join(stmts))
            # (1) expression template statement
            L.append('%s %s %s;' % (target, '=' if mode == '=' else op2 + '=', cxx(tree)))
            P = PFX[cls]; pr = {'z': 'pz', 'q': 'pq', 'f': 'pf_'}[cls]
            L.append('%s("T", %d, %s.get_%s_t()); %s("C", %d, %s);' % (pr, sid, target, P, pr, sid, t))
            L.append(' '.join('%s_clear(t%d);' % (pc, i + 1) for i, pc in enumerate(ctr[1])) + ' }')
            exp[sid] = (cls, val, '%s %s %s' % (target, '=' if mode == '=' else op2 + '=', cxx(tree)))
            if cls == 'f': vals[target] = None if False else feval_store(full, vals)
            else: vals[target] = val
        L.append('}')
    # conversions, constructors, streams
    L.append('{')
    for i in range(10):
        sid += 1
        s = r.choice(['123', '-0x1f', '0b101', '  77', 'abc', '', '12x', '0777', '-', '0x', '99999999999999999999999999', '1 2 3'])
        base = r.choice([0, 10, 16])
        L.append('{ int thrown = 0, cret; mpz_t t; mpz_init(t); cret = mpz_set_str(t, "%s", %d); try { mpz_class z("%s", %d); if (!cret) { pz("T", %d, z.get_mpz_t()); pz("C", %d, t); } } catch (std::invalid_argument &) { thrown = 1; } printf("X %d %%d %%d\\n", thrown, cret); mpz_clear(t); }' % (s, base, s, base, sid, sid, sid))
        exp[sid] = ('x', None, 'mpz_class("%s", %d)' % (s, base))
    for i in range(12):
        sid += 1
        v = r.choice([gen.val(r, 2), r.randint(-300, 300), (1 << 63) - 1, -(1 << 63), 1 << 64, 0])
        base = r.choice([2, 10, 16, 36, 62, -16])
        L.append('{ mpz_class z("%d"); char *s = mpz_get_str(NULL, %d, z.get_mpz_t()); printf("S %d %%s %%s\\n", z.get_str(%d).c_str(), s); free(s);' % (v, base, sid, base))
        L.append('printf("G %d %%ld %%ld %%lu %%lu %%a %%a %%d%%d%%d%%d%%d%%d %%d%%d%%d%%d%%d%%d %%d %%d\\n", (long) z.get_si(), (long) mpz_get_si(z.get_mpz_t()), (unsigned long) z.get_ui(), (unsigned long) mpz_get_ui(z.get_mpz_t()), z.get_d(), mpz_get_d(z.get_mpz_t()), '
                 '(int) z.fits_sint_p(), (int) z.fits_slong_p(), (int) z.fits_sshort_p(), (int) z.fits_uint_p(), (int) z.fits_ulong_p(), (int) z.fits_ushort_p(), '
                 'mpz_fits_sint_p(z.get_mpz_t()) != 0, mpz_fits_slong_p(z.get_mpz_t()) != 0, mpz_fits_sshort_p(z.get_mpz_t()) != 0, mpz_fits_uint_p(z.get_mpz_t()) != 0, mpz_fits_ulong_p(z.get_mpz_t()) != 0, mpz_fits_ushort_p(z.get_mpz_t()) != 0, sgn(z), mpz_sgn(z.get_mpz_t())); }' % sid)
        exp[sid] = ('s', None, 'get_str/get_si/fits of %d base %d' % (v, base))
    for i in range(14):
        sid += 1
        v = r.choice([gen.val(r, 2), r.randint(-300, 300), 255, -255, 0])
        basef, conv = r.choice([('dec', 'd'), ('hex', 'x'), ('oct', 'o')])
        sb = r.random() < 0.4 and v != 0      # how showbase treats zero is not specified (ostream prints 0x0, printf '#' prints 0)
        sp = r.random() < 0.3 and conv == 'd'; up = r.random() < 0.3 and conv == 'x'; w = r.choice([0, 0, 12, 30]); adj = r.choice(['left', 'right', 'internal'])
        manip = 'std::%s' % basef + (' << std::showbase' if sb else '') + (' << std::showpos' if sp else '') + (' << std::uppercase' if up else '') + (' << std::setw(%d) << std::%s' % (w, adj) if w else '')
        fl = ('#' if sb else '') + ('+' if sp else '') + ('-' if w and adj == 'left' else '') + ('0' if False else '')
        fmt = '%' + fl + (str(w) if w and adj != 'internal' else '') + 'Z' + (conv.upper() if up else conv)
        if w and adj == 'internal':
            # sign/prefix first, then fill, then digits: only the length and the digits are compared
            L.append('{ mpz_class z("%d"); std::ostringstream os; os << %s << z; printf("W %d %%d %%s\\n", (int) os.str().size(), os.str().c_str()); }' % (v, manip, sid))
            exp[sid] = ('w', (v, w), 'ostream internal width %d' % w)
        else:
            L.append('{ mpz_class z("%d"); std::ostringstream os; os << %s << z; char buf[400]; gmp_snprintf(buf, sizeof buf, "%s", z.get_mpz_t()); printf("O %d [%%s] [%%s]\\n", os.str().c_str(), buf); }' % (v, manip, fmt, sid))
            exp[sid] = ('o', None, 'ostream %s vs %s of %d' % (manip, fmt, v))
    # mpq_class and mpf_class insertion against gmp_snprintf with the equivalent conversion
    for i in range(8):
        sid += 1
        n_ = r.choice([gen.val(r, 2), r.randint(-300, 300), 255, -255, 0]); d_ = r.choice([1, 1, 3, 255, abs(gen.val(r, 1, False)) or 7])
        basef, conv = r.choice([('dec', 'd'), ('hex', 'x'), ('oct', 'o')])
        sb = r.random() < 0.4 and n_ != 0; sp = r.random() < 0.3 and conv == 'd'; up = r.random() < 0.3 and conv == 'x'; w = r.choice([0, 0, 14, 40]); adj = r.choice(['left', 'right'])
        manip = 'std::%s' % basef + (' << std::showbase' if sb else '') + (' << std::showpos' if sp else '') + (' << std::uppercase' if up else '') + (' << std::setw(%d) << std::%s' % (w, adj) if w else '')
        fmt = '%' + ('#' if sb else '') + ('+' if sp else '') + ('-' if w and adj == 'left' else '') + (str(w) if w else '') + 'Q' + (conv.upper() if up else conv)
        L.append('{ mpq_class q("%d/%d"); q.canonicalize(); std::ostringstream os; os << %s << q; char buf[600]; gmp_snprintf(buf, sizeof buf, "%s", q.get_mpq_t()); printf("O %d [%%s] [%%s]\\n", os.str().c_str(), buf); }' % (n_, d_, manip, fmt, sid))
        exp[sid] = ('o', None, 'mpq ostream %s vs %s of %d/%d' % (manip, fmt, n_, d_))
    for i in range(10):
        sid += 1
        m_ = r.choice([r.randint(-10 ** 6, 10 ** 6), r.getrandbits(70) * r.choice([1, -1]), 0, 1, -1, 5]); j_ = r.choice([0, 1, 3, 10, 40, -20]); pr = r.choice([1, 3, 6, 10, 25])
        ff, conv = r.choice([('fixed', 'f'), ('scientific', 'e')])
        sp = r.random() < 0.3; up = r.random() < 0.3 and conv == 'e'; w = r.choice([0, 0, 30]); adj = r.choice(['left', 'right'])
        manip = 'std::%s << std::setprecision(%d)' % (ff, pr) + (' << std::showpos' if sp else '') + (' << std::uppercase' if up else '') + (' << std::setw(%d) << std::%s' % (w, adj) if w else '')
        fmt = '%' + ('+' if sp else '') + ('-' if w and adj == 'left' else '') + (str(w) if w else '') + '.%d' % pr + 'F' + (conv.upper() if up else conv)
        val = 'mpf_class f("%d", 256); f %s= mpf_class(%d) << %d;' % (m_, '*' if j_ >= 0 else '/', 1, abs(j_))
        L.append('{ %s std::ostringstream os; os << %s << f; char buf[900]; gmp_snprintf(buf, sizeof buf, "%s", f.get_mpf_t()); printf("O %d [%%s] [%%s]\\n", os.str().c_str(), buf); }' % (val, manip, fmt, sid))
        exp[sid] = ('o', None, 'mpf ostream %s vs %s of %d*2^%d' % (manip, fmt, m_, j_))
    for i in range(8):
        sid += 1
        s = r.choice(['123', '-77 rest', '0x1f', '  42', 'ff', 'zz', '0777', '-'])
        basef = r.choice(['dec', 'hex', 'oct'])
        b = {'dec': 10, 'hex': 16, 'oct': 8}[basef]
        L.append('{ std::istringstream is("%s"); mpz_class z(5); is >> std::%s >> z; printf("I %d %%d ", (int) is.fail()); pz("V", %d, z.get_mpz_t()); }' % (s, basef, sid, sid))
        exp[sid] = ('i', (s, b), 'istream %s >> %r' % (basef, s))
    # comparisons
    for i in range(10):
        sid += 1
        x = gen.val(r, 2); y = r.choice([x, x + 1, gen.val(r, 2), int(float(x)) if abs(x) < 1 << 52 else 3])
        lit = r.choice(['mpz_class("%d")' % y, '(long)(%dL)' % max(-(1 << 62), min(1 << 62, y)), '(double)(%s)' % float(max(-(1 << 62), min(1 << 62, y))).hex()])
        yy = y if lit.startswith('mpz') else max(-(1 << 62), min(1 << 62, y))
        if lit.startswith('(double'): yy = int(float(yy))
        L.append('{ mpz_class x("%d"); printf("P %d %%d%%d%%d%%d%%d%%d %%d\\n", (int)(x < %s), (int)(x <= %s), (int)(x == %s), (int)(x != %s), (int)(x > %s), (int)(x >= %s), cmp(x, %s) < 0 ? -1 : cmp(x, %s) > 0); }' % (x, sid, lit, lit, lit, lit, lit, lit, lit, lit))
        exp[sid] = ('p', (x, yy), 'compare %d with %s' % (x, lit))
    L.append('}')
    L.append('return 0; }')
    return '\n'.join(L), exp, sigs

EDGE_SRC = r"""
#include <csignal>
#include <unistd.h>
#include <climits>
static char cur[900];
static long ntot = 0;
static void on_sig(int sg) { char b[1000]; int n = snprintf(b, sizeof b, "CRASH sig=%d %s\n", sg, cur); if (write(1, b, n)) {} _exit(3); }
static string hz(mpz_srcptr a) { char *s = mpz_get_str(NULL, 16, a); string r(s); free(s); return r; }
static string hq(mpq_srcptr a) { return hz(mpq_numref(a)) + "/" + hz(mpq_denref(a)); }
template <class T> struct Lit;
template <> struct Lit<int> { static void z(mpz_t t, int v) { mpz_set_si(t, v); } static void q(mpq_t t, int v) { mpq_set_si(t, v, 1); } static const char *nm() { return "int"; } static string str(int v) { return to_string(v); } };
template <> struct Lit<long> { static void z(mpz_t t, long v) { mpz_set_si(t, v); } static void q(mpq_t t, long v) { mpq_set_si(t, v, 1); } static const char *nm() { return "long"; } static string str(long v) { return to_string(v); } };
template <> struct Lit<unsigned> { static void z(mpz_t t, unsigned v) { mpz_set_ui(t, v); } static void q(mpq_t t, unsigned v) { mpq_set_ui(t, v, 1); } static const char *nm() { return "unsigned"; } static string str(unsigned v) { return to_string(v); } };
template <> struct Lit<unsigned long> { static void z(mpz_t t, unsigned long v) { mpz_set_ui(t, v); } static void q(mpq_t t, unsigned long v) { mpq_set_ui(t, v, 1); } static const char *nm() { return "ulong"; } static string str(unsigned long v) { return to_string(v); } };
template <> struct Lit<double> { static void z(mpz_t t, double v) { mpz_set_d(t, v); } static void q(mpq_t t, double v) { mpq_set_d(t, v); } static const char *nm() { return "double"; } static string str(double v) { char b[60]; snprintf(b, sizeof b, "%a", v); return b; } };
#define ZCHK(opn, side, EXPR, CSTMT) do { snprintf(cur, sizeof cur, "z %s %s %s lit=%s z=%s", opn, tn, side, ls.c_str(), ZV[zi]); mpz_class r_; r_ = EXPR; CSTMT; ntot++; \
    if (mpz_cmp(r_.get_mpz_t(), t) != 0) printf("E %s | template=%s C=%s\n", cur, hz(r_.get_mpz_t()).c_str(), hz(t).c_str()); } while (0)
#define ZCMP(opn, side, EXPR, CEXPR) do { snprintf(cur, sizeof cur, "z %s %s %s lit=%s z=%s", opn, tn, side, ls.c_str(), ZV[zi]); ntot++; \
    if ((bool)(EXPR) != (bool)(CEXPR)) printf("E %s | template=%d C=%d\n", cur, (int)(bool)(EXPR), (int)(bool)(CEXPR)); } while (0)
#define ZCOMP(opn, OPEQ, CSTMT) do { snprintf(cur, sizeof cur, "z %s %s A lit=%s z=%s", opn, tn, ls.c_str(), ZV[zi]); mpz_class r_(z); r_ OPEQ l; CSTMT; ntot++; \
    if (mpz_cmp(r_.get_mpz_t(), t) != 0) printf("E %s | template=%s C=%s\n", cur, hz(r_.get_mpz_t()).c_str(), hz(t).c_str()); } while (0)
template <class T> static void run_z(const T *lits, int nl, const char *const *ZV, int nz)
{
  const char *tn = Lit<T>::nm();
  for (int zi = 0; zi < nz; zi++) for (int li = 0; li < nl; li++)
    {
      mpz_class z(ZV[zi]); T l = lits[li]; string ls = Lit<T>::str(l);
      mpz_t lt, t; mpz_init(lt); mpz_init(t); Lit<T>::z(lt, l); mpz_srcptr zt = z.get_mpz_t();
      ZCHK("+", "L", l + z, mpz_add(t, lt, zt)); ZCHK("+", "R", z + l, mpz_add(t, zt, lt));
      ZCHK("-", "L", l - z, mpz_sub(t, lt, zt)); ZCHK("-", "R", z - l, mpz_sub(t, zt, lt));
      ZCHK("*", "L", l * z, mpz_mul(t, lt, zt)); ZCHK("*", "R", z * l, mpz_mul(t, zt, lt));
      ZCHK("&", "L", l & z, mpz_and(t, lt, zt)); ZCHK("&", "R", z & l, mpz_and(t, zt, lt));
      ZCHK("|", "L", l | z, mpz_ior(t, lt, zt)); ZCHK("|", "R", z | l, mpz_ior(t, zt, lt));
      ZCHK("^", "L", l ^ z, mpz_xor(t, lt, zt)); ZCHK("^", "R", z ^ l, mpz_xor(t, zt, lt));
      if (mpz_sgn(zt) != 0) { ZCHK("/", "L", l / z, mpz_tdiv_q(t, lt, zt)); ZCHK("%", "L", l % z, mpz_tdiv_r(t, lt, zt)); }
      if (mpz_sgn(lt) != 0) { ZCHK("/", "R", z / l, mpz_tdiv_q(t, zt, lt)); ZCHK("%", "R", z % l, mpz_tdiv_r(t, zt, lt)); }
      ZCHK("-", "Lalias", l - r_ * 0 - z, mpz_sub(t, lt, zt));
      { snprintf(cur, sizeof cur, "z -alias %s L lit=%s z=%s", tn, ls.c_str(), ZV[zi]); mpz_class r_(z); r_ = l - r_; mpz_sub(t, lt, zt); ntot++; if (mpz_cmp(r_.get_mpz_t(), t) != 0) printf("E %s | template=%s C=%s\n", cur, hz(r_.get_mpz_t()).c_str(), hz(t).c_str()); }
      if (mpz_sgn(zt) != 0) { snprintf(cur, sizeof cur, "z /alias %s L lit=%s z=%s", tn, ls.c_str(), ZV[zi]); mpz_class r_(z); r_ = l / r_; mpz_tdiv_q(t, lt, zt); ntot++; if (mpz_cmp(r_.get_mpz_t(), t) != 0) printf("E %s | template=%s C=%s\n", cur, hz(r_.get_mpz_t()).c_str(), hz(t).c_str()); }
      if (mpz_sgn(zt) != 0) { snprintf(cur, sizeof cur, "z %%alias %s L lit=%s z=%s", tn, ls.c_str(), ZV[zi]); mpz_class r_(z); r_ = l % r_; mpz_tdiv_r(t, lt, zt); ntot++; if (mpz_cmp(r_.get_mpz_t(), t) != 0) printf("E %s | template=%s C=%s\n", cur, hz(r_.get_mpz_t()).c_str(), hz(t).c_str()); }
      ZCOMP("+=", +=, mpz_add(t, zt, lt)); ZCOMP("-=", -=, mpz_sub(t, zt, lt)); ZCOMP("*=", *=, mpz_mul(t, zt, lt));
      ZCOMP("&=", &=, mpz_and(t, zt, lt)); ZCOMP("|=", |=, mpz_ior(t, zt, lt)); ZCOMP("^=", ^=, mpz_xor(t, zt, lt));
      if (mpz_sgn(lt) != 0) { ZCOMP("/=", /=, mpz_tdiv_q(t, zt, lt)); ZCOMP("%=", %=, mpz_tdiv_r(t, zt, lt)); }
      int c = mpz_cmp(zt, lt);
      ZCMP("<", "R", z < l, c < 0); ZCMP("<", "L", l < z, c > 0); ZCMP("==", "R", z == l, c == 0); ZCMP("==", "L", l == z, c == 0);
      ZCMP(">", "R", z > l, c > 0); ZCMP(">=", "L", l >= z, c <= 0); ZCMP("!=", "R", z != l, c != 0); ZCMP("<=", "R", z <= l, c <= 0);
      ZCMP("cmp", "R", cmp(z, l) < 0, c < 0); ZCMP("cmp", "L", cmp(l, z) < 0, c > 0); ZCMP("cmp>", "R", cmp(z, l) > 0, c > 0);
      mpz_clear(lt); mpz_clear(t);
    }
}
#define QCHK(opn, side, EXPR, CSTMT) do { snprintf(cur, sizeof cur, "q %s %s %s lit=%s q=%s", opn, tn, side, ls.c_str(), QV[qi]); mpq_class r_; r_ = EXPR; CSTMT; ntot++; \
    if (!mpq_equal(r_.get_mpq_t(), t) || mpz_cmp(mpq_denref(r_.get_mpq_t()), mpq_denref(t)) != 0) printf("E %s | template=%s C=%s\n", cur, hq(r_.get_mpq_t()).c_str(), hq(t).c_str()); } while (0)
#define QCMP(opn, side, EXPR, CEXPR) do { snprintf(cur, sizeof cur, "q %s %s %s lit=%s q=%s", opn, tn, side, ls.c_str(), QV[qi]); ntot++; \
    if ((bool)(EXPR) != (bool)(CEXPR)) printf("E %s | template=%d C=%d\n", cur, (int)(bool)(EXPR), (int)(bool)(CEXPR)); } while (0)
template <class T> static void run_q(const T *lits, int nl, const char *const *QV, int nq)
{
  const char *tn = Lit<T>::nm();
  for (int qi = 0; qi < nq; qi++) for (int li = 0; li < nl; li++)
    {
      mpq_class q(QV[qi]); q.canonicalize(); T l = lits[li]; string ls = Lit<T>::str(l);
      mpq_t lt, t; mpq_init(lt); mpq_init(t); Lit<T>::q(lt, l); mpq_srcptr qt = q.get_mpq_t();
      QCHK("+", "L", l + q, mpq_add(t, lt, qt)); QCHK("+", "R", q + l, mpq_add(t, qt, lt));
      QCHK("-", "L", l - q, mpq_sub(t, lt, qt)); QCHK("-", "R", q - l, mpq_sub(t, qt, lt));
      QCHK("*", "L", l * q, mpq_mul(t, lt, qt)); QCHK("*", "R", q * l, mpq_mul(t, qt, lt));
      if (mpq_sgn(qt) != 0) QCHK("/", "L", l / q, mpq_div(t, lt, qt));
      if (mpq_sgn(lt) != 0) QCHK("/", "R", q / l, mpq_div(t, qt, lt));
      { snprintf(cur, sizeof cur, "q -alias %s L lit=%s q=%s", tn, ls.c_str(), QV[qi]); mpq_class r_(q); r_ = l - r_; mpq_sub(t, lt, qt); ntot++; if (!mpq_equal(r_.get_mpq_t(), t)) printf("E %s | template=%s C=%s\n", cur, hq(r_.get_mpq_t()).c_str(), hq(t).c_str()); }
      if (mpq_sgn(qt) != 0) { snprintf(cur, sizeof cur, "q /alias %s L lit=%s q=%s", tn, ls.c_str(), QV[qi]); mpq_class r_(q); r_ = l / r_; mpq_div(t, lt, qt); ntot++; if (!mpq_equal(r_.get_mpq_t(), t)) printf("E %s | template=%s C=%s\n", cur, hq(r_.get_mpq_t()).c_str(), hq(t).c_str()); }
      int c = mpq_cmp(qt, lt);
      QCMP("<", "R", q < l, c < 0); QCMP("<", "L", l < q, c > 0); QCMP("==", "R", q == l, c == 0); QCMP("==", "L", l == q, c == 0); QCMP(">", "R", q > l, c > 0); QCMP(">=", "L", l >= q, c <= 0);
      mpq_clear(lt); mpq_clear(t);
    }
}
"""

def gen_edge_program(r):
    """every operator with a built-in operand on either side x edge values of the built-in type x edge values of the class operand, looped at run
    time inside one template per built-in type (so the compile cost does not grow with the number of value pairs)"""
    B63 = 1 << 63; B64 = 1 << 64
    zv = [0, 1, -1, 2, -2, 3, -3, 7, B63 - 1, -B63, B63, -B63 - 1, -B63 + 1, B64 - 1, -(B64 - 1), B64, -B64, (1 << 31) - 1, -(1 << 31), (1 << 32) - 1, 1 << 32, -(1 << 32)]
    zv += [gen.val(r, 2) for _ in range(4)] + [gen.val(r, 1) for _ in range(3)] + [r.randint(-100, 100) for _ in range(3)]
    qv = ['0', '1', '-1', '1/2', '-7/3', str(B63 - 1), str(-B63), '%d/%d' % (B64 - 1, (1 << 32) + 1), '-1/%d' % B63, '%d/3' % B64, '3/-6', '-9223372036854775808/3']
    qv += ['%d/%d' % (gen.val(r, 2), abs(gen.val(r, 2, False)) or 1) for _ in range(4)]
    ints = [0, 1, -1, 2, -7, 2147483647, -2147483648] + [r.randint(-10 ** 6, 10 ** 6) for _ in range(2)]
    uns = [0, 1, 3, 4294967295, 2147483648] + [r.randint(0, 10 ** 6)]
    longs = [0, 1, -1, B63 - 1, -B63, -B63 + 1, 1 << 32, -(1 << 32), 3, -3] + [r.getrandbits(62) * r.choice([1, -1]) for _ in range(2)]
    ulongs = [0, 1, B64 - 1, B63, B63 + 1, 4294967295, 3] + [r.getrandbits(64) for _ in range(2)]
    dbls = [0.0, 1.0, -1.0, -3.0, float(B63), -float(B63), float(B64), 1e20, -1e20, 4294967296.0, float(1 << 53), -float((1 << 53) - 1)] + [float(r.randint(-10 ** 9, 10 ** 9)) for _ in range(2)]
    qdbls = [0.0, 1.0, -1.0, 0.5, -0.375, float(B63), -1e20, 2.0 ** -40] + [float(r.randint(-999, 999)) / 16 for _ in range(2)]
    def il(v): return '(-2147483647-1)' if v == -2147483648 else str(v)
    def ll(v): return '(-9223372036854775807L-1)' if v == -B63 else '%dL' % v
    L = [HEADER, EDGE_SRC, 'int main() {', 'setvbuf(stdout, NULL, _IONBF, 0); signal(SIGFPE, on_sig); signal(SIGSEGV, on_sig); signal(SIGILL, on_sig); signal(SIGBUS, on_sig);']
    L.append('static const char *ZV[] = {%s};' % ', '.join('"%d"' % v for v in zv))
    L.append('static const char *QV[] = {%s};' % ', '.join('"%s"' % v for v in qv))
    L.append('static const int LI[] = {%s};' % ', '.join(il(v) for v in ints))
    L.append('static const unsigned LU[] = {%s};' % ', '.join('%du' % v for v in uns))
    L.append('static const long LL[] = {%s};' % ', '.join(ll(v) for v in longs))
    L.append('static const unsigned long LUL[] = {%s};' % ', '.join('%dUL' % v for v in ulongs))
    L.append('static const double LD[] = {%s};' % ', '.join(v.hex() for v in dbls))
    L.append('static const double LDQ[] = {%s};' % ', '.join(v.hex() for v in qdbls))
    nz, nq = len(zv), len(qv)
    L.append('run_z<int>(LI, %d, ZV, %d); run_z<unsigned>(LU, %d, ZV, %d); run_z<long>(LL, %d, ZV, %d); run_z<unsigned long>(LUL, %d, ZV, %d); run_z<double>(LD, %d, ZV, %d);' % (len(ints), nz, len(uns), nz, len(longs), nz, len(ulongs), nz, len(dbls), nz))
    L.append('run_q<int>(LI, %d, QV, %d); run_q<unsigned>(LU, %d, QV, %d); run_q<long>(LL, %d, QV, %d); run_q<unsigned long>(LUL, %d, QV, %d); run_q<double>(LDQ, %d, QV, %d);' % (len(ints), nq, len(uns), nq, len(longs), nq, len(ulongs), nq, len(qdbls), nq))
    L.append('printf("N %ld\\n", ntot); return 0; }')
    return '\n'.join(L)

def judge_edge(out, fails):
    n = 0
    for l in out.splitlines():
        if l.startswith('N '): n = int(l.split()[1])
        elif l.startswith(('E ', 'CRASH ')):
            t = l.split()
            off = 1 if l.startswith('E ') else 2
            cls, op, ty, side = t[off], t[off + 1], t[off + 2], t[off + 3]
            key = ('%s_class:builtin-operand-differs-from-C-functions:%s:%s:%s' if l.startswith('E ') else 'cxx:crash-in-builtin-operand:%s:%s:%s:%s'.replace('%s:', '%s_class:', 1)) % ('mp' + cls, op, ty, side)
            fails.append((key, l[:400]))
    return n

def feval(n, env):
    """approximate float evaluation for domain screening of mpf trees"""
    if n.op == 'var': return float(env[n.val])
    if n.op == 'lit': return float(n.val)
    if n.op == 'cast': return float(evaluate(n.kids[0], env, n.kind))
    k = [feval(x, env) for x in n.kids]
    if n.op == '+': return k[0] + k[1]
    if n.op == '-': return k[0] - k[1]
    if n.op == '*': return k[0] * k[1]
    if n.op == '/':
        if abs(k[1]) < 1e-30: raise ZeroDivisionError
        return k[0] / k[1]
    if n.op == 'neg': return -k[0]
    if n.op == 'abs': return abs(k[0])
    if n.op == 'sqrt':
        if k[0] < 1e-30: raise ValueError      # also avoids sqrt near cancellation noise
        return math.sqrt(k[0])
    raise ValueError
def feval_store(n, env):
    try: return Fraction(feval(n, env))
    except Exception: return Fraction(1)

def judge(out, exp, fails, sigs_seen, tag):
    got = {}
    for l in out.splitlines():
        p = l.split(' ', 2)
        if len(p) < 2 or not p[1].isdigit(): continue
        got.setdefault(int(p[1]), []).append((p[0], p[2] if len(p) > 2 else ''))
    n = 0
    for sid, (cls, val, desc) in exp.items():
        g = dict((k, v) for k, v in got.get(sid, []))
        if cls in ('z', 'q', 'f'):
            if 'T' not in g or 'C' not in g: fails.append(('HARNESS:no-output', '%s: statement %d %s' % (tag, sid, desc))); continue
            n += 1
            if cls == 'f':
                def fv(s):
                    m, e = s.split('@'); neg = m.startswith('-'); m = m.lstrip('-')
                    v = Fraction(int(m, 16), 16 ** len(m)) * Fraction(16) ** int(e) if m != '0' else Fraction(0)
                    return -v if neg else v
                a, b = fv(g['T']), fv(g['C'])
                if a != b and abs(a - b) * (1 << 250) > abs(b): fails.append(('mpf_class:expression-differs-from-C-functions', '%s | template=%s C=%s' % (desc, g['T'][:50], g['C'][:50])))
                continue
            if g['T'] != g['C']: fails.append(('%s_class:expression-differs-from-C-functions' % PFX[cls], '%s | template=%s C=%s' % (desc, g['T'][:60], g['C'][:60])))
            elif val is not None:
                want = ('%x' % val if val >= 0 else '-%x' % -val) if cls == 'z' else '%s/%x' % ('%x' % val.numerator if val >= 0 else '-%x' % -val.numerator, val.denominator)
                if g['C'] != want: fails.append(('%s:C-functions-differ-from-model' % PFX[cls], '%s | C=%s model=%s' % (desc, g['C'][:60], want[:60])))
        elif cls == 'x':
            n += 1
            thrown, cret = g.get('X', '0 0').split()
            if (thrown == '1') != (cret != '0'): fails.append(('mpz_class:string-constructor-exception-mismatch', '%s thrown=%s mpz_set_str=%s' % (desc, thrown, cret)))
            if 'T' in g and g['T'] != g.get('C'): fails.append(('mpz_class:string-constructor-value', desc))
        elif cls == 's':
            n += 1
            a, b = g.get('S', 'x y').split()
            if a != b: fails.append(('mpz_class:get_str-differs', '%s: %s vs %s' % (desc, a, b)))
            t = g.get('G', '').split()
            if len(t) < 10 or t[0] != t[1] or t[2] != t[3] or t[4] != t[5] or t[6] != t[7] or t[8] != t[9]: fails.append(('mpz_class:get/fits-differ-from-C', '%s: %s' % (desc, t)))
        elif cls == 'o':
            n += 1
            m = re.match(r'\[(.*)\] \[(.*)\]$', g.get('O', ''))
            if not m or m.group(1) != m.group(2): fails.append(('mpz_class:ostream-differs-from-gmp_printf', '%s: %s' % (desc, g.get('O'))))
        elif cls == 'w':
            n += 1
            v, w = val; t = g.get('W', '0 ').split(' ', 1)
            if int(t[0]) != max(w, len(t[1])) or len(t[1]) != w and len(t[1]) < w: fails.append(('mpz_class:ostream-internal-width', '%s: %r' % (desc, g.get('W'))))
        elif cls == 'i':
            n += 1
            s, b = val; tok = s.strip().split(' ')[0] if s.strip() else ''
            it = g.get('I', '1').split()
            failf = it[0]
            if len(it) >= 4 and it[1] == 'V': g['V'] = it[3]
            # with an explicit basefield no 0x/0 indicator is read (manual): sign, then the longest run of digits of that base
            mm = re.match(r'(-?)([0-9a-fA-F]*)', tok); ds = ''
            for ch in mm.group(2):
                if int(ch, 16) < b: ds += ch
                else: break
            ok = ds != ''
            if ok: want = int(ds, b) * (-1 if mm.group(1) else 1)
            if ok:
                if failf != '0' or g.get('V') != ('%x' % want if want >= 0 else '-%x' % -want): fails.append(('mpz_class:istream-wrong', '%s fail=%s value=%s' % (desc, failf, g.get('V'))))
            elif tok in ('', '-', 'zz') and failf != '1': fails.append(('mpz_class:istream-accepts-non-number', '%s' % desc))
        elif cls == 'p':
            n += 1
            x, y = val; want = '%d%d%d%d%d%d %d' % (x < y, x <= y, x == y, x != y, x > y, x >= y, (x > y) - (x < y))
            if g.get('P') != want: fails.append(('mpz_class:comparison-wrong', '%s got=%s want=%s' % (desc, g.get('P'), want)))
    return n

def main(argv):
    ap = argparse.ArgumentParser(); ap.add_argument('--tier', default=os.environ.get('VERIF_TIER', 'quick')); ap.add_argument('--replay')
    a = ap.parse_args(argv)
    t0 = time.time(); q = a.tier == 'quick'
    variant = 'cxx-asan'
    try:
        b = bld.ensure_variant(variant)
    except bld.BuildError as e:
        runner.finish(PID, a.tier, LEVEL, [], dict(evaluations=0, distinct_nontrivial=0, rule=RULE, samples=[]), ASSUMPTIONS, t0, inconclusive='build failed: %s' % e)
    src = os.path.join(bld.root(), 'src')
    work = os.path.join(b, 'cxxprogs-%d' % os.getpid()); shutil.rmtree(work, ignore_errors=True); os.makedirs(work)
    sd = runner.seed()
    nprog = 32 if q else 600
    if a.replay:
        j = json.load(open(a.replay)); seeds = [j['spec']['prog_seed']]
    else: seeds = [(sd * 1000003 + i * 7919) & 0xffffffffffff for i in range(nprog)]
    failures = []; sigs = set(); total = [0]; edge_total = [0]; samples = []; herr = []
    EDGE = 1 << 60       # program seeds at or above this are built-in-operand edge programs
    if not a.replay: seeds = [EDGE + ((sd * 31 + i) & 0xffffff) for i in range(2 if q else 12)] + seeds
    def one(ps):
        r = random.Random(ps)
        if ps >= EDGE: srcs, exp, sg = gen_edge_program(r), None, set()
        else: srcs, exp, sg = gen_program(r, ps)
        f = os.path.join(work, 'p%x.cc' % ps); open(f, 'w').write(srcs)
        exe = f[:-3]
        cmd = ['g++', '-std=gnu++17', '-O1', '-g', '-fsanitize=address,undefined', '-fno-sanitize-recover=' + bld.UBSAN_FATAL, '-fno-omit-frame-pointer', '-I' + b, '-I' + src, f,
               os.path.join(b, '.libs', 'libmpirxx.a'), os.path.join(b, '.libs', 'libmpir.a'), '-o', exe]
        cp = subprocess.run(cmd, stdout=subprocess.PIPE, stderr=subprocess.STDOUT, text=True)
        if cp.returncode != 0: return ps, exp, sg, None, 'compile failed: ' + cp.stdout[-1500:], srcs
        try:
            rp = subprocess.run([exe], stdout=subprocess.PIPE, stderr=subprocess.PIPE, text=True, timeout=300, env=dict(os.environ, ASAN_OPTIONS='detect_leaks=0:abort_on_error=0', UBSAN_OPTIONS='print_stacktrace=1'))
        except subprocess.TimeoutExpired:
            return ps, exp, sg, None, 'timeout', srcs
        os.unlink(exe)
        return ps, exp, sg, rp, None, srcs
    with ThreadPoolExecutor(16) as ex:
        for ps, exp, sg, rp, err, srcs in ex.map(one, seeds):
            if err:
                if err.startswith('compile'): herr.append('program %x: %s' % (ps, err))
                else: failures.append(dict(key='cxx:program-hangs', detail='seed %x' % ps, variant=variant, spec={'prog_seed': ps}, cmds=[], replies=[], stderr=''))
                continue
            fl = []
            if exp is None:
                ne = judge_edge(rp.stdout, fl)
                if rp.returncode not in (0, 3) or (rp.returncode == 0 and ne == 0):
                    m = re.search(r'ERROR: AddressSanitizer: ([\w-]+)', rp.stderr)
                    fl.append(('cxx:sanitizer-or-crash:%s' % (m.group(1) if m else 'rc%d' % rp.returncode), 'edge program: ' + rp.stderr[-1500:]))
                total[0] += ne; edge_total[0] += ne
                for k, d in fl: failures.append(dict(key=k, detail=d[:1500], variant=variant, spec={'prog_seed': ps}, cmds=[], replies=[], stderr=rp.stderr[-2000:]))
                if ne: sigs.update(('edge', i) for i in range(min(ne // 100, 400)))
                continue
            if rp.returncode != 0:
                m = re.search(r'ERROR: AddressSanitizer: ([\w-]+)', rp.stderr)
                fl.append(('cxx:sanitizer-or-crash:%s' % (m.group(1) if m else 'rc%d' % rp.returncode), rp.stderr[-1500:]))
            total[0] += judge(rp.stdout, exp, fl, sigs, 'prog %x' % ps)
            sigs |= sg
            for k, d in fl:
                if k.startswith('HARNESS'): herr.append(d); continue
                failures.append(dict(key=k, detail=d[:1500], variant=variant, spec={'prog_seed': ps}, cmds=[], replies=[], stderr=rp.stderr[-2000:]))
            if len(samples) < 3:
                some = [v[2] for k, v in list(exp.items())[:60:13]]
                samples.append({'program_seed': ps, 'statements': len(exp), 'examples': some})
    shutil.rmtree(work, ignore_errors=True)
    cov = dict(evaluations=total[0], builtin_edge_checks=edge_total[0], distinct_nontrivial=len(sigs), programs=len(seeds), rule=RULE, samples=samples, variants=[variant], tree=bld.tree_hash())
    runner.finish(PID, a.tier, LEVEL, failures, cov, ASSUMPTIONS, t0, harness_errors=herr, inconclusive=None if total[0] else 'no statements judged')
