"""C20 C++ class expressions evaluate to the same values as the C functions.

Generated C++ programs: for each random well-typed expression tree the program holds (1) the expression-template
statement and (2) the step-by-step evaluation with the C functions into separate temporaries; both results are
printed and must be identical, and for mpz/mpq trees the Python model gives a third, independent value."""
import os, sys, random, time, json, re, subprocess, shutil, math, argparse, traceback
from fractions import Fraction
from concurrent.futures import ThreadPoolExecutor
import runner, gen, models
import build as bld

PID = 'C20'
LEVEL = 'exploration'
RULE = ('generated programs of ~60 statements each: random expression trees (depth <= 4) over mpz_class / mpq_class / mpf_class variables, sub-'
        'expressions and int/unsigned/long/unsigned long/double literals on either side (every operator node has a class-typed operand; only integer-'
        'valued doubles next to mpz_class), operators + - * / % & | ^ ~ << >> unary -, abs, sqrt, assignment targets that occur inside the tree and '
        'compound assignments; each statement is evaluated (1) by the expression templates and (2) step by step with the C functions (/ = tdiv_q, % = '
        'tdiv_r, >> = fdiv_q_2exp, conversions by mpz_set_si/ui/d, mpq_set_*), printed in hex and compared; mpz/mpq trees also against Python ints/'
        'Fractions; mpf trees (all at one precision) must agree within 2^(3-p); plus constructors from strings (std::invalid_argument iff the C '
        'function returns -1), get_str/get_si/get_ui/get_d/fits_*, cmp/sgn/comparison operators, operator<< under dec/hex/oct/showbase/showpos/'
        'uppercase/setw/left/right/internal against gmp_snprintf with the equivalent flags, operator>>. Compiled with g++ -O1 -fsanitize=address,'
        'undefined against the --enable-cxx build. distinct = (operator, operand kinds, aliased target?, class)')
ASSUMPTIONS = ['operator>> on mpz_class is floor division by 2^n (mpz_fdiv_q_2exp), as GMP documents', 'trees beyond depth 4 are not explored']

LITK = ['int', 'unsigned', 'long', 'ulong', 'double']

class Node:
    __slots__ = ('op', 'kids', 'val', 'kind', 'lit')
    def __init__(self, op, kids=(), val=None, kind='c', lit=None):
        self.op = op; self.kids = list(kids); self.val = val; self.kind = kind; self.lit = lit

def lit_node(r, cls):
    k = r.choice(LITK)
    if k == 'int': v = r.choice([0, 1, -1, 2, -7, 100, 2147483647, -2147483648, r.randint(-1000, 1000)]); s = '(int)(%d)' % v if v != -2147483648 else '(int)(-2147483647-1)'
    elif k == 'unsigned': v = r.choice([0, 1, 3, 4294967295, r.randint(0, 100000)]); s = '%uu' % v
    elif k == 'long': v = r.choice([0, -1, 5, (1 << 63) - 1, -(1 << 63), r.getrandbits(62) * r.choice([1, -1])]); s = '(long)(%dL)' % v if v != -(1 << 63) else '(long)(-9223372036854775807L-1)'
    elif k == 'ulong': v = r.choice([0, 1, (1 << 64) - 1, 1 << 63, r.getrandbits(64)]); s = '%luUL' % v
    else:
        if cls == 'z': v = float(r.choice([0, 1, -3, 1 << 40, -(1 << 52), r.randint(-10 ** 6, 10 ** 6), 1 << 70])); s = repr(v) if abs(v) < 1e15 else '%s' % v.hex()
        else: v = r.choice([0.5, -0.25, 3.0, 1.75, -1e10, float(r.randint(-999, 999)) / 8]); s = v.hex()
        s = '(double)(%s)' % s
    return Node('lit', val=v, kind=k, lit=s)

def gen_tree(r, cls, depth, vars_):
    """random tree whose value has class cls; every operator node has a class-typed operand"""
    if depth == 0 or r.random() < 0.25:
        return Node('var', val=r.choice(vars_))
    ops = {'z': ['+', '-', '*', '/', '%', '&', '|', '^', '~', 'neg', 'abs', '<<', '>>', 'sqrt'], 'q': ['+', '-', '*', '/', 'neg', 'abs', '<<', '>>'], 'f': ['+', '-', '*', '/', 'neg', 'abs', 'sqrt']}[cls]
    op = r.choice(ops)
    if op in ('~', 'neg', 'abs', 'sqrt'): return Node(op, [gen_tree(r, cls, depth - 1, vars_)])
    if op in ('<<', '>>'): return Node(op, [gen_tree(r, cls, depth - 1, vars_), Node('lit', val=r.choice([0, 1, 5, 63, 64, 65, 130]), kind='shift')])
    a = gen_tree(r, cls, depth - 1, vars_)
    c = r.random()
    if c < 0.3: b = lit_node(r, cls)
    else: b = gen_tree(r, cls, depth - 1, vars_)
    if b.op == 'lit' and r.random() < 0.5: a, b = b, a
    return Node(op, [a, b])

def evaluate(n, env, cls):
    """Python model value (int or Fraction); raises ZeroDivisionError/ValueError for undefined trees; None for mpf"""
    if n.op == 'var': return env[n.val]
    if n.op == 'lit':
        v = n.val
        if isinstance(v, float): return int(v) if cls == 'z' else Fraction(v)
        return v if cls == 'z' else Fraction(v)
    k = [evaluate(x, env, cls) for x in n.kids]
    if n.op == '+': return k[0] + k[1]
    if n.op == '-': return k[0] - k[1]
    if n.op == '*': return k[0] * k[1]
    if n.op == '/':
        if k[1] == 0: raise ZeroDivisionError
        return models.tdiv(k[0], k[1])[0] if cls == 'z' else k[0] / k[1]
    if n.op == '%':
        if k[1] == 0: raise ZeroDivisionError
        return models.tdiv(k[0], k[1])[1]
    if n.op == '&': return k[0] & k[1]
    if n.op == '|': return k[0] | k[1]
    if n.op == '^': return k[0] ^ k[1]
    if n.op == '~': return ~k[0]
    if n.op == 'neg': return -k[0]
    if n.op == 'abs': return abs(k[0])
    if n.op == '<<': return k[0] << k[1] if cls == 'z' else k[0] * (1 << int(k[1]))
    if n.op == '>>': return k[0] >> k[1] if cls == 'z' else k[0] / (1 << int(k[1]))
    if n.op == 'sqrt':
        if k[0] < 0: raise ValueError
        if cls == 'z': return math.isqrt(k[0])
        return None
    raise ValueError(n.op)

def cxx(n):
    if n.op == 'var': return n.val
    if n.op == 'lit': return n.lit if n.kind != 'shift' else '%dUL' % n.val
    k = [cxx(x) for x in n.kids]
    if n.op in ('~',): return '(~%s)' % k[0]
    if n.op == 'neg': return '(-%s)' % k[0]
    if n.op in ('abs', 'sqrt'): return '%s(%s)' % (n.op, k[0])
    return '(%s %s %s)' % (k[0], n.op, k[1])

PFX = {'z': 'mpz', 'q': 'mpq', 'f': 'mpf'}
def cstep(n, cls, out, ctr, prec):
    """emit C statements computing node n into a fresh temporary; returns its name"""
    ctr[0] += 1; t = 't%d' % ctr[0]; P = PFX[cls]
    out.append('%s_t %s; %s;' % (P, t, 'mpf_init2(%s, %d)' % (t, prec) if cls == 'f' else '%s_init(%s)' % (P, t)))
    if n.op == 'var': out.append('%s_set(%s, %s.get_%s_t());' % (P, t, n.val, P)); return t
    if n.op == 'lit':
        v = n.val
        if n.kind in ('int', 'long'): out.append({'z': 'mpz_set_si(%s, %s);', 'q': 'mpq_set_si(%s, %s, 1);', 'f': 'mpf_set_si(%s, %s);'}[cls] % (t, n.lit))
        elif n.kind in ('unsigned', 'ulong'): out.append({'z': 'mpz_set_ui(%s, %s);', 'q': 'mpq_set_ui(%s, %s, 1);', 'f': 'mpf_set_ui(%s, %s);'}[cls] % (t, n.lit))
        else: out.append('%s_set_d(%s, %s);' % (P, t, n.lit))
        return t
    ks = [cstep(x, cls, out, ctr, prec) if not (n.op in ('<<', '>>') and i == 1) else None for i, x in enumerate(n.kids)]
    fn = {('z', '+'): 'mpz_add', ('z', '-'): 'mpz_sub', ('z', '*'): 'mpz_mul', ('z', '/'): 'mpz_tdiv_q', ('z', '%'): 'mpz_tdiv_r', ('z', '&'): 'mpz_and', ('z', '|'): 'mpz_ior', ('z', '^'): 'mpz_xor',
          ('q', '+'): 'mpq_add', ('q', '-'): 'mpq_sub', ('q', '*'): 'mpq_mul', ('q', '/'): 'mpq_div', ('f', '+'): 'mpf_add', ('f', '-'): 'mpf_sub', ('f', '*'): 'mpf_mul', ('f', '/'): 'mpf_div'}
    if (cls, n.op) in fn: out.append('%s(%s, %s, %s);' % (fn[(cls, n.op)], t, ks[0], ks[1]))
    elif n.op == '~': out.append('mpz_com(%s, %s);' % (t, ks[0]))
    elif n.op == 'neg': out.append('%s_neg(%s, %s);' % (P, t, ks[0]))
    elif n.op == 'abs': out.append('%s_abs(%s, %s);' % (P, t, ks[0]))
    elif n.op == 'sqrt': out.append('%s_sqrt(%s, %s);' % (P, t, ks[0]))
    elif n.op == '<<': out.append('%s_mul_2exp(%s, %s, %d);' % (P, t, ks[0], n.kids[1].val))
    elif n.op == '>>': out.append(('mpz_fdiv_q_2exp(%s, %s, %d);' if cls == 'z' else '%s_div_2exp(%%s, %%s, %%d);' % P) % (t, ks[0], n.kids[1].val))
    return t

def sig(n):
    if n.op in ('var', 'lit'): return n.op if n.op == 'var' else n.kind
    return n.op
def signatures(n, target, acc):
    if n.op not in ('var', 'lit'):
        acc.add((n.op, tuple(sig(k) for k in n.kids), target in uses(n)))
        for k in n.kids: signatures(k, target, acc)
def uses(n):
    if n.op == 'var': return {n.val}
    s = set()
    for k in n.kids: s |= uses(k)
    return s

HEADER = r'''
#include <cstdio>
#include <cstdlib>
#include <cstring>
#include <string>
#include <sstream>
#include <iomanip>
#include <iostream>
#include <stdexcept>
#include "mpirxx.h"
using namespace std;
extern "C" { void __mpir_verif_hit (int) {} void __mpir_verif_evt (int, long, long, long, long) {} void __mpir_verif_point (int) {} }
static void pz(const char *tag, int id, mpz_srcptr a) { char *s = mpz_get_str(NULL, 16, a); printf("%s %d %s\n", tag, id, s); free(s); }
static void pq(const char *tag, int id, mpq_srcptr a) { char *s = mpz_get_str(NULL, 16, mpq_numref(a)); char *d = mpz_get_str(NULL, 16, mpq_denref(a)); printf("%s %d %s/%s\n", tag, id, s, d); free(s); free(d); }
static void pf_(const char *tag, int id, mpf_srcptr a) { mp_exp_t e; char *s = mpf_get_str(NULL, &e, 16, 0, a); printf("%s %d %s@%ld\n", tag, id, s[0] ? s : "0", (long) e); free(s); }
'''

def gen_program(r, pid):
    """returns (source, expectations dict id -> (cls, python value or None, description))"""
    L = [HEADER, 'int main() {', 'mpf_set_default_prec(256);']
    exp = {}; sigs = set()
    sid = 0
    for cls in ('z', 'z', 'q', 'f'):
        names = ['a', 'b', 'c', 'd']
        L.append('{')
        vals = {}
        for nme in names:
            if cls == 'z': v = r.choice([gen.val(r, 3), gen.val(r, 1), r.randint(-9, 9)]); L.append('mpz_class %s("%d");' % (nme, v))
            elif cls == 'q': v = Fraction(gen.val(r, 2), abs(gen.val(r, 2, False)) or 1); L.append('mpq_class %s("%d/%d");' % (nme, v.numerator, v.denominator))
            else: v = Fraction(r.randint(-10 ** 6, 10 ** 6), 1 << r.randint(0, 20)); L.append('mpf_class %s("%d", 256); %s /= %d;' % (nme, v.numerator, nme, v.denominator))
            vals[nme] = v
        nst = 16 if cls != 'f' else 10
        made = 0; tries = 0
        while made < nst and tries < 400:
            tries += 1
            tree = gen_tree(r, cls, r.randint(1, 4), names)
            if tree.op == 'var': continue
            target = r.choice(names)
            mode = r.choice(['=', '=', '=', 'op='])
            op2 = r.choice({'z': ['+', '-', '*', '/', '%', '&', '|', '^'], 'q': ['+', '-', '*', '/'], 'f': ['+', '-', '*', '/']}[cls])
            full = tree if mode == '=' else Node(op2, [Node('var', val=target), tree])
            val = None
            if cls != 'f':
                try:
                    val = evaluate(full, vals, cls)
                    evaluate(tree, vals, cls)
                except (ZeroDivisionError, ValueError): continue
                except OverflowError: continue
            if cls != 'f' and val is not None and (abs(val).bit_length() if cls == 'z' else max(abs(val.numerator).bit_length(), val.denominator.bit_length())) > 40000: continue
            if cls == 'f':
                # keep magnitudes sane and avoid sqrt of negatives in the float domain: evaluate with Fractions where possible
                try:
                    chk = feval(full, vals)
                    if chk is None or abs(chk) > 1e200 or (chk != 0 and abs(chk) < 1e-200): continue
                except (ZeroDivisionError, ValueError, OverflowError): continue
            sid += 1; made += 1
            signatures(full, target, sigs)
            stmts = []; ctr = [0]
            # (2) step by step first, from the current variable values
            t = cstep(full, cls, stmts, ctr, 256)
            L.append('{ ' + ' '.join(stmts))
            # (1) expression template statement
            L.append('%s %s %s;' % (target, '=' if mode == '=' else op2 + '=', cxx(tree)))
            P = PFX[cls]; pr = {'z': 'pz', 'q': 'pq', 'f': 'pf_'}[cls]
            L.append('%s("T", %d, %s.get_%s_t()); %s("C", %d, %s);' % (pr, sid, target, P, pr, sid, t))
            L.append(' '.join('%s_clear(t%d);' % (P, i) for i in range(1, ctr[0] + 1)) + ' }')
            exp[sid] = (cls, val, '%s %s %s' % (target, '=' if mode == '=' else op2 + '=', cxx(tree)))
            if cls == 'f': vals[target] = None if False else feval_store(full, vals)
            else: vals[target] = val
        L.append('}')
    # conversions, constructors, streams
    L.append('{')
    for i in range(10):
        sid += 1
        s = r.choice(['123', '-0x1f', '0b101', '  77', 'abc', '', '12x', '0777', '-', '0x', '99999999999999999999999999', '1 2 3'])
        base = r.choice([0, 10, 16])
        L.append('{ int thrown = 0, cret; mpz_t t; mpz_init(t); cret = mpz_set_str(t, "%s", %d); try { mpz_class z("%s", %d); if (!cret) { pz("T", %d, z.get_mpz_t()); pz("C", %d, t); } } catch (std::invalid_argument &) { thrown = 1; } printf("X %d %%d %%d\\n", thrown, cret); mpz_clear(t); }' % (s, base, s, base, sid, sid, sid))
        exp[sid] = ('x', None, 'mpz_class("%s", %d)' % (s, base))
    for i in range(12):
        sid += 1
        v = r.choice([gen.val(r, 2), r.randint(-300, 300), (1 << 63) - 1, -(1 << 63), 1 << 64, 0])
        base = r.choice([2, 10, 16, 36, 62, -16])
        L.append('{ mpz_class z("%d"); char *s = mpz_get_str(NULL, %d, z.get_mpz_t()); printf("S %d %%s %%s\\n", z.get_str(%d).c_str(), s); free(s);' % (v, base, sid, base))
        L.append('printf("G %d %%ld %%ld %%lu %%lu %%a %%a %%d%%d%%d%%d%%d%%d %%d%%d%%d%%d%%d%%d %%d %%d\\n", (long) z.get_si(), (long) mpz_get_si(z.get_mpz_t()), (unsigned long) z.get_ui(), (unsigned long) mpz_get_ui(z.get_mpz_t()), z.get_d(), mpz_get_d(z.get_mpz_t()), '
                 '(int) z.fits_sint_p(), (int) z.fits_slong_p(), (int) z.fits_sshort_p(), (int) z.fits_uint_p(), (int) z.fits_ulong_p(), (int) z.fits_ushort_p(), '
                 'mpz_fits_sint_p(z.get_mpz_t()) != 0, mpz_fits_slong_p(z.get_mpz_t()) != 0, mpz_fits_sshort_p(z.get_mpz_t()) != 0, mpz_fits_uint_p(z.get_mpz_t()) != 0, mpz_fits_ulong_p(z.get_mpz_t()) != 0, mpz_fits_ushort_p(z.get_mpz_t()) != 0, sgn(z), mpz_sgn(z.get_mpz_t())); }' % sid)
        exp[sid] = ('s', None, 'get_str/get_si/fits of %d base %d' % (v, base))
    for i in range(14):
        sid += 1
        v = r.choice([gen.val(r, 2), r.randint(-300, 300), 255, -255, 0])
        basef, conv = r.choice([('dec', 'd'), ('hex', 'x'), ('oct', 'o')])
        sb = r.random() < 0.4 and v != 0      # how showbase treats zero is not specified (ostream prints 0x0, printf '#' prints 0)
        sp = r.random() < 0.3 and conv == 'd'; up = r.random() < 0.3 and conv == 'x'; w = r.choice([0, 0, 12, 30]); adj = r.choice(['left', 'right', 'internal'])
        manip = 'std::%s' % basef + (' << std::showbase' if sb else '') + (' << std::showpos' if sp else '') + (' << std::uppercase' if up else '') + (' << std::setw(%d) << std::%s' % (w, adj) if w else '')
        fl = ('#' if sb else '') + ('+' if sp else '') + ('-' if w and adj == 'left' else '') + ('0' if False else '')
        fmt = '%' + fl + (str(w) if w and adj != 'internal' else '') + 'Z' + (conv.upper() if up else conv)
        if w and adj == 'internal':
            # sign/prefix first, then fill, then digits: only the length and the digits are compared
            L.append('{ mpz_class z("%d"); std::ostringstream os; os << %s << z; printf("W %d %%d %%s\\n", (int) os.str().size(), os.str().c_str()); }' % (v, manip, sid))
            exp[sid] = ('w', (v, w), 'ostream internal width %d' % w)
        else:
            L.append('{ mpz_class z("%d"); std::ostringstream os; os << %s << z; char buf[400]; gmp_snprintf(buf, sizeof buf, "%s", z.get_mpz_t()); printf("O %d [%%s] [%%s]\\n", os.str().c_str(), buf); }' % (v, manip, fmt, sid))
            exp[sid] = ('o', None, 'ostream %s vs %s of %d' % (manip, fmt, v))
    for i in range(8):
        sid += 1
        s = r.choice(['123', '-77 rest', '0x1f', '  42', 'ff', 'zz', '0777', '-'])
        basef = r.choice(['dec', 'hex', 'oct'])
        b = {'dec': 10, 'hex': 16, 'oct': 8}[basef]
        L.append('{ std::istringstream is("%s"); mpz_class z(5); is >> std::%s >> z; printf("I %d %%d ", (int) is.fail()); pz("V", %d, z.get_mpz_t()); }' % (s, basef, sid, sid))
        exp[sid] = ('i', (s, b), 'istream %s >> %r' % (basef, s))
    # comparisons
    for i in range(10):
        sid += 1
        x = gen.val(r, 2); y = r.choice([x, x + 1, gen.val(r, 2), int(float(x)) if abs(x) < 1 << 52 else 3])
        lit = r.choice(['mpz_class("%d")' % y, '(long)(%dL)' % max(-(1 << 62), min(1 << 62, y)), '(double)(%s)' % float(max(-(1 << 62), min(1 << 62, y))).hex()])
        yy = y if lit.startswith('mpz') else max(-(1 << 62), min(1 << 62, y))
        if lit.startswith('(double'): yy = int(float(yy))
        L.append('{ mpz_class x("%d"); printf("P %d %%d%%d%%d%%d%%d%%d %%d\\n", (int)(x < %s), (int)(x <= %s), (int)(x == %s), (int)(x != %s), (int)(x > %s), (int)(x >= %s), cmp(x, %s) < 0 ? -1 : cmp(x, %s) > 0); }' % (x, sid, lit, lit, lit, lit, lit, lit, lit, lit))
        exp[sid] = ('p', (x, yy), 'compare %d with %s' % (x, lit))
    L.append('}')
    L.append('return 0; }')
    return '\n'.join(L), exp, sigs

def feval(n, env):
    """approximate float evaluation for domain screening of mpf trees"""
    if n.op == 'var': return float(env[n.val])
    if n.op == 'lit': return float(n.val)
    k = [feval(x, env) for x in n.kids]
    if n.op == '+': return k[0] + k[1]
    if n.op == '-': return k[0] - k[1]
    if n.op == '*': return k[0] * k[1]
    if n.op == '/':
        if abs(k[1]) < 1e-30: raise ZeroDivisionError
        return k[0] / k[1]
    if n.op == 'neg': return -k[0]
    if n.op == 'abs': return abs(k[0])
    if n.op == 'sqrt':
        if k[0] < 1e-30: raise ValueError      # also avoids sqrt near cancellation noise
        return math.sqrt(k[0])
    raise ValueError
def feval_store(n, env):
    try: return Fraction(feval(n, env))
    except Exception: return Fraction(1)

def judge(out, exp, fails, sigs_seen, tag):
    got = {}
    for l in out.splitlines():
        p = l.split(' ', 2)
        if len(p) < 2 or not p[1].isdigit(): continue
        got.setdefault(int(p[1]), []).append((p[0], p[2] if len(p) > 2 else ''))
    n = 0
    for sid, (cls, val, desc) in exp.items():
        g = dict((k, v) for k, v in got.get(sid, []))
        if cls in ('z', 'q', 'f'):
            if 'T' not in g or 'C' not in g: fails.append(('HARNESS:no-output', '%s: statement %d %s' % (tag, sid, desc))); continue
            n += 1
            if cls == 'f':
                def fv(s):
                    m, e = s.split('@'); neg = m.startswith('-'); m = m.lstrip('-')
                    v = Fraction(int(m, 16), 16 ** len(m)) * Fraction(16) ** int(e) if m != '0' else Fraction(0)
                    return -v if neg else v
                a, b = fv(g['T']), fv(g['C'])
                if a != b and abs(a - b) * (1 << 250) > abs(b): fails.append(('mpf_class:expression-differs-from-C-functions', '%s | template=%s C=%s' % (desc, g['T'][:50], g['C'][:50])))
                continue
            if g['T'] != g['C']: fails.append(('%s_class:expression-differs-from-C-functions' % PFX[cls], '%s | template=%s C=%s' % (desc, g['T'][:60], g['C'][:60])))
            elif val is not None:
                want = ('%x' % val if val >= 0 else '-%x' % -val) if cls == 'z' else '%s/%x' % ('%x' % val.numerator if val >= 0 else '-%x' % -val.numerator, val.denominator)
                if g['C'] != want: fails.append(('%s:C-functions-differ-from-model' % PFX[cls], '%s | C=%s model=%s' % (desc, g['C'][:60], want[:60])))
        elif cls == 'x':
            n += 1
            thrown, cret = g.get('X', '0 0').split()
            if (thrown == '1') != (cret != '0'): fails.append(('mpz_class:string-constructor-exception-mismatch', '%s thrown=%s mpz_set_str=%s' % (desc, thrown, cret)))
            if 'T' in g and g['T'] != g.get('C'): fails.append(('mpz_class:string-constructor-value', desc))
        elif cls == 's':
            n += 1
            a, b = g.get('S', 'x y').split()
            if a != b: fails.append(('mpz_class:get_str-differs', '%s: %s vs %s' % (desc, a, b)))
            t = g.get('G', '').split()
            if len(t) < 10 or t[0] != t[1] or t[2] != t[3] or t[4] != t[5] or t[6] != t[7] or t[8] != t[9]: fails.append(('mpz_class:get/fits-differ-from-C', '%s: %s' % (desc, t)))
        elif cls == 'o':
            n += 1
            m = re.match(r'\[(.*)\] \[(.*)\]$', g.get('O', ''))
            if not m or m.group(1) != m.group(2): fails.append(('mpz_class:ostream-differs-from-gmp_printf', '%s: %s' % (desc, g.get('O'))))
        elif cls == 'w':
            n += 1
            v, w = val; t = g.get('W', '0 ').split(' ', 1)
            if int(t[0]) != max(w, len(t[1])) or len(t[1]) != w and len(t[1]) < w: fails.append(('mpz_class:ostream-internal-width', '%s: %r' % (desc, g.get('W'))))
        elif cls == 'i':
            n += 1
            s, b = val; tok = s.strip().split(' ')[0] if s.strip() else ''
            it = g.get('I', '1').split()
            failf = it[0]
            if len(it) >= 4 and it[1] == 'V': g['V'] = it[3]
            # with an explicit basefield no 0x/0 indicator is read (manual): sign, then the longest run of digits of that base
            mm = re.match(r'(-?)([0-9a-fA-F]*)', tok); ds = ''
            for ch in mm.group(2):
                if int(ch, 16) < b: ds += ch
                else: break
            ok = ds != ''
            if ok: want = int(ds, b) * (-1 if mm.group(1) else 1)
            if ok:
                if failf != '0' or g.get('V') != ('%x' % want if want >= 0 else '-%x' % -want): fails.append(('mpz_class:istream-wrong', '%s fail=%s value=%s' % (desc, failf, g.get('V'))))
            elif tok in ('', '-', 'zz') and failf != '1': fails.append(('mpz_class:istream-accepts-non-number', '%s' % desc))
        elif cls == 'p':
            n += 1
            x, y = val; want = '%d%d%d%d%d%d %d' % (x < y, x <= y, x == y, x != y, x > y, x >= y, (x > y) - (x < y))
            if g.get('P') != want: fails.append(('mpz_class:comparison-wrong', '%s got=%s want=%s' % (desc, g.get('P'), want)))
    return n

def main(argv):
    ap = argparse.ArgumentParser(); ap.add_argument('--tier', default=os.environ.get('VERIF_TIER', 'quick')); ap.add_argument('--replay')
    a = ap.parse_args(argv)
    t0 = time.time(); q = a.tier == 'quick'
    variant = 'cxx-asan'
    try:
        b = bld.ensure_variant(variant)
    except bld.BuildError as e:
        runner.finish(PID, a.tier, LEVEL, [], dict(evaluations=0, distinct_nontrivial=0, rule=RULE, samples=[]), ASSUMPTIONS, t0, inconclusive='build failed: %s' % e)
    src = os.path.join(bld.root(), 'src')
    work = os.path.join(b, 'cxxprogs-%d' % os.getpid()); shutil.rmtree(work, ignore_errors=True); os.makedirs(work)
    sd = runner.seed()
    nprog = 32 if q else 600
    if a.replay:
        j = json.load(open(a.replay)); seeds = [j['spec']['prog_seed']]
    else: seeds = [(sd * 1000003 + i * 7919) & 0xffffffffffff for i in range(nprog)]
    failures = []; sigs = set(); total = [0]; samples = []; herr = []
    def one(ps):
        r = random.Random(ps)
        srcs, exp, sg = gen_program(r, ps)
        f = os.path.join(work, 'p%x.cc' % ps); open(f, 'w').write(srcs)
        exe = f[:-3]
        cmd = ['g++', '-std=gnu++17', '-O1', '-g', '-fsanitize=address,undefined', '-fno-sanitize-recover=' + bld.UBSAN_FATAL, '-fno-omit-frame-pointer', '-I' + b, '-I' + src, f,
               os.path.join(b, '.libs', 'libmpirxx.a'), os.path.join(b, '.libs', 'libmpir.a'), '-o', exe]
        cp = subprocess.run(cmd, stdout=subprocess.PIPE, stderr=subprocess.STDOUT, text=True)
        if cp.returncode != 0: return ps, exp, sg, None, 'compile failed: ' + cp.stdout[-1500:], srcs
        try:
            rp = subprocess.run([exe], stdout=subprocess.PIPE, stderr=subprocess.PIPE, text=True, timeout=300, env=dict(os.environ, ASAN_OPTIONS='detect_leaks=0:abort_on_error=0', UBSAN_OPTIONS='print_stacktrace=1'))
        except subprocess.TimeoutExpired:
            return ps, exp, sg, None, 'timeout', srcs
        os.unlink(exe)
        return ps, exp, sg, rp, None, srcs
    with ThreadPoolExecutor(16) as ex:
        for ps, exp, sg, rp, err, srcs in ex.map(one, seeds):
            if err:
                if err.startswith('compile'): herr.append('program %x: %s' % (ps, err))
                else: failures.append(dict(key='cxx:program-hangs', detail='seed %x' % ps, variant=variant, spec={'prog_seed': ps}, cmds=[], replies=[], stderr=''))
                continue
            fl = []
            if rp.returncode != 0:
                m = re.search(r'ERROR: AddressSanitizer: ([\w-]+)', rp.stderr)
                fl.append(('cxx:sanitizer-or-crash:%s' % (m.group(1) if m else 'rc%d' % rp.returncode), rp.stderr[-1500:]))
            total[0] += judge(rp.stdout, exp, fl, sigs, 'prog %x' % ps)
            sigs |= sg
            for k, d in fl:
                if k.startswith('HARNESS'): herr.append(d); continue
                failures.append(dict(key=k, detail=d[:1500], variant=variant, spec={'prog_seed': ps}, cmds=[], replies=[], stderr=rp.stderr[-2000:]))
            if len(samples) < 3:
                some = [v[2] for k, v in list(exp.items())[:60:13]]
                samples.append({'program_seed': ps, 'statements': len(exp), 'examples': some})
    shutil.rmtree(work, ignore_errors=True)
    cov = dict(evaluations=total[0], distinct_nontrivial=len(sigs), programs=len(seeds), rule=RULE, samples=samples, variants=[variant], tree=bld.tree_hash())
    runner.finish(PID, a.tier, LEVEL, failures, cov, ASSUMPTIONS, t0, harness_errors=herr, inconclusive=None if total[0] else 'no statements judged')
