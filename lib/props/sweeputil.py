"""shared helpers for the in-driver kernel sweeps"""
from runner import Case

def parse_sweep(line):
    t = line.split()
    assert t[0] == 'sweep', line
    calls = int(t[1].split('=')[1]); mism = int(t[2].split('=')[1]); first = t[3].split('=', 1)[1]
    digs = {}
    for x in t[4:]:
        if x.startswith('!'): continue
        name, rest = x.rsplit('=', 1); d, n = rest.split('/')
        digs[name] = (d, int(n))
    return calls, mism, first, digs

def sweep_case(group, lo, hi, seed, pid_key):
    cmds = ['sweep %s %d %d %d' % (group, lo, hi, seed)]
    case = Case(cmds, None, 0, None, False, timeout=1200)
    def check(rep, case=case):
        calls, mism, first, digs = parse_sweep(rep[0])
        case.dyn['calls'] = calls
        case.dyn['tags'] = [(fn, n) for fn in digs for n in range(lo, hi + 1) if n > 1]
        case.dyn['ops'] = {fn: v[1] for fn, v in digs.items()}
        case.dyn['info'] = {'sweep:%s:%d-%d' % (group, lo, hi): {k: v[0] for k, v in digs.items()}}
        if mism:
            out = []
            for f in first.split(';'):
                if f and f != '-':
                    fn = f.split(':')[0]
                    out.append(('%s:%s:kernel-vs-limb-reference' % (pid_key, fn), f))
            return out[:6] or [('%s:sweep-mismatch' % pid_key, first)]
    case.check = check
    return case
