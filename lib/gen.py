"""Operand generators: hostile value classes and threshold-aware sizes."""
import random
B = 1 << 64
M = B - 1
SPEC = [0, 1, 2, 3, M, M - 1, B >> 1, (B >> 1) + 1, (B >> 1) - 1]

CLASSES = ['rand', 'runs', 'ones', 'bit', 'bitpm', 'lowzero', 'special', 'sparse', 'top1', 'tophalf', 'topmax']

def limb(r):
    c = r.random()
    if c < 0.4: return r.choice(SPEC)
    if c < 0.7: return r.getrandbits(64)
    return (r.choice(SPEC) + r.randint(-3, 3)) & M

def runs(r, bits, mean=24.0):
    x = 0; n = 0; b = r.getrandbits(1)
    while n < bits:
        k = min(bits - n, 1 + int(r.expovariate(1 / mean)))
        x = (x << k) | (((1 << k) - 1) if b else 0); n += k; b ^= 1
    return x

def nat(r, n, cls=None):
    """non-negative integer of exactly n limbs (top limb non-zero) in value class cls; n == 0 -> 0"""
    if n <= 0: return 0
    cls = cls or r.choice(CLASSES)
    bits = 64 * n
    if cls == 'rand': x = r.getrandbits(bits)
    elif cls == 'runs': x = runs(r, bits, r.choice([8.0, 24.0, 100.0, 400.0]))
    elif cls == 'ones': x = (1 << bits) - 1
    elif cls == 'bit': x = 1 << r.randint(64 * (n - 1), bits - 1)
    elif cls == 'bitpm':
        x = (1 << r.randint(64 * (n - 1) + 1, bits - 1)) + r.choice([-1, 1])
    elif cls == 'lowzero':
        z = r.randint(1, n) if n > 1 else 0
        x = r.getrandbits(64 * (n - z) or 1) << (64 * z)
    elif cls == 'special': x = sum(limb(r) << (64 * i) for i in range(n))
    elif cls == 'sparse':
        x = 0
        for _ in range(r.randint(1, 4)): x |= 1 << r.randrange(bits)
    elif cls == 'top1': x = (1 << (bits - 64)) | r.getrandbits(bits - 64) if n > 1 else 1
    elif cls == 'tophalf': x = ((B >> 1) + r.choice([0, 1])) << (bits - 64) | (r.getrandbits(bits - 64) if n > 1 else 0)
    elif cls == 'topmax': x = (M << (bits - 64)) | (r.getrandbits(bits - 64) if n > 1 else 0)
    else: x = r.getrandbits(bits)
    x &= (1 << bits) - 1
    if x >> (bits - 64) == 0:
        x |= 1 << (bits - 64)          # make it exactly n limbs
    return x

def signed(r, n, cls=None, pneg=0.4):
    x = nat(r, n, cls)
    return -x if r.random() < pneg else x

def val(r, maxlimbs=6, signed_=True):
    """small hostile integer as in the pilot"""
    c = r.random(); n = r.randint(0, maxlimbs)
    if c < 0.08: x = r.choice([0, 1, 2, 3])
    elif c < 0.35: x = sum(limb(r) << (64 * i) for i in range(n))
    elif c < 0.55: x = runs(r, 64 * n + r.randint(0, 63)) if n else 0
    elif c < 0.7: x = (1 << r.randint(0, 64 * max(n, 1))) + r.choice([-1, 0, 1])
    elif c < 0.8: x = r.getrandbits(64 * n + 1) << (64 * r.randint(0, 3))
    else: x = r.getrandbits(r.randint(1, 64 * max(n, 1)))
    if x < 0: x = 0
    if signed_ and r.random() < 0.4: x = -x
    return x

def around(ts, lo=1, hi=None, deltas=(-2, -1, 0, 1, 2)):
    """sizes around each threshold"""
    out = set()
    for t in ts:
        for d in deltas:
            v = t + d
            if v >= lo and (hi is None or v <= hi): out.add(v)
    return sorted(out)

def ladder(lo, hi, ratio=1.5):
    out = []; x = float(lo)
    while x <= hi:
        out.append(int(x)); x = x * ratio + 1
    return out

def nlimbs(x):
    return (abs(x).bit_length() + 63) // 64
