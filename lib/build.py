"""Export /repo's working tree, build instrumented variants and drivers.

Everything lives under SCRATCH/<treehash>/ so that an edit to any source file
of /repo forces a rebuild and the checks of one tree share their builds.
"""
import os, sys, hashlib, subprocess, shutil, fcntl, time, json, re
from concurrent.futures import ThreadPoolExecutor

REPO = os.environ.get('VERIF_REPO', '/repo')
VERIF = os.path.dirname(os.path.dirname(os.path.abspath(__file__)))
SCRATCH = os.environ.get('VERIF_SCRATCH', '/var/tmp/mpir-verif')
GUARD = 'MPIR_VERIF'
NCPU = os.cpu_count() or 8

UBSAN_FATAL = ('bounds,object-size,null,nonnull-attribute,returns-nonnull-attribute,'
               'vla-bound,pointer-overflow,unreachable')
ASAN_CFLAGS = ('-O1 -g -fno-omit-frame-pointer -fsanitize=address,undefined '
               '-fno-sanitize-recover=' + UBSAN_FATAL)
TSAN_CFLAGS = '-O1 -g -fno-omit-frame-pointer -fsanitize=thread'

CPUS = ['netburst', 'k8', 'k10', 'k102', 'bulldozer', 'piledriver', 'bobcat', 'core2',
        'penryn', 'nehalem', 'westmere', 'sandybridge', 'ivybridge', 'haswell',
        'haswellavx', 'broadwell', 'skylake', 'skylakeavx', 'atom', 'nano']
# cpu variants for which configure's own -march can be kept on this host is
# decided at run time (host_supports_march)

def variants():
    v = {
        'asan':       dict(cflags=ASAN_CFLAGS, conf=[]),
        'asan-tdbg':  dict(cflags=ASAN_CFLAGS, conf=['--enable-alloca=debug']),
        'asan-reent': dict(cflags=ASAN_CFLAGS, conf=['--enable-alloca=malloc-reentrant']),
        'plain':      dict(cflags=None, conf=[], ldflags='-no-pie'),
        'pinned':     dict(cflags='-Wno-error', conf=[]),
        'tsan':       dict(cflags=TSAN_CFLAGS, conf=[]),
        'tsan-fat':   dict(cflags=TSAN_CFLAGS, conf=['--enable-fat'], ldflags='-no-pie'),
        'none':       dict(cflags=None, conf=['--build=none-unknown-linux-gnu']),
        'fat':        dict(cflags=None, conf=['--enable-fat'], ldflags='-no-pie'),
        'assert':     dict(cflags=None, conf=['--enable-assert']),
        'tdbg':       dict(cflags=None, conf=['--enable-alloca=debug']),
        'reent':      dict(cflags=None, conf=['--enable-alloca=malloc-reentrant']),
        'cxx-asan':   dict(cflags=ASAN_CFLAGS, cxxflags=ASAN_CFLAGS, conf=['--enable-cxx'], cxx=True),
        'cxx':        dict(cflags=None, conf=['--enable-cxx'], cxx=True),
    }
    for c in CPUS:
        v['cpu-' + c] = dict(cflags='__cpu__', conf=['--build=%s-unknown-linux-gnu' % c], cpu=c)
    return v

def log(*a):
    print('[build]', *a, file=sys.stderr, flush=True)

def run(cmd, cwd=None, env=None, out=None, check=True):
    e = dict(os.environ)
    e['ASAN_OPTIONS'] = 'detect_leaks=0'
    e.pop('MAKEFLAGS', None); e.pop('MFLAGS', None)
    if env: e.update(env)
    f = open(out, 'ab') if out else subprocess.DEVNULL
    try:
        r = subprocess.run(cmd, cwd=cwd, env=e, stdout=f, stderr=subprocess.STDOUT,
                           shell=isinstance(cmd, str))
    finally:
        if out: f.close()
    if check and r.returncode != 0:
        raise BuildError('command failed (%d): %s (log %s)' % (r.returncode, cmd, out))
    return r.returncode

class BuildError(Exception):
    pass

# ------------------------------------------------------------------ tree hash
def repo_files():
    o = subprocess.run(['git', '-C', REPO, 'ls-files', '-co', '--exclude-standard', '-z'],
                       stdout=subprocess.PIPE, check=True).stdout
    fs = sorted(set(x for x in o.decode('utf-8', 'surrogateescape').split('\0') if x))
    return fs

_th = None
def tree_hash():
    global _th
    if _th: return _th
    h = hashlib.sha256()
    for f in repo_files():
        p = os.path.join(REPO, f)
        try:
            st = os.lstat(p)
        except FileNotFoundError:
            h.update(b'D ' + f.encode('utf-8', 'surrogateescape') + b'\0'); continue
        if os.path.islink(p):
            c = os.readlink(p).encode()
        elif os.path.isfile(p):
            with open(p, 'rb') as fp: c = fp.read()
        else:
            continue
        h.update(f.encode('utf-8', 'surrogateescape') + b'\0' +
                 (b'x' if st.st_mode & 0o100 else b'-') + hashlib.sha256(c).digest())
    _th = h.hexdigest()[:20]
    return _th

class Lock:
    def __init__(self, path):
        self.path = path
    def __enter__(self):
        os.makedirs(os.path.dirname(self.path), exist_ok=True)
        self.f = open(self.path, 'w')
        fcntl.flock(self.f, fcntl.LOCK_EX)
        return self
    def __exit__(self, *a):
        fcntl.flock(self.f, fcntl.LOCK_UN); self.f.close()

def root():
    return os.path.join(SCRATCH, tree_hash())

def gc_other_trees():
    """remove builds of other tree hashes (at most one tree's builds exist)"""
    if os.environ.get('VERIF_KEEP_TREES'): return
    os.makedirs(SCRATCH, exist_ok=True)
    me = tree_hash()
    with Lock(os.path.join(SCRATCH, '.gc.lock')):
        for d in os.listdir(SCRATCH):
            p = os.path.join(SCRATCH, d)
            if d != me and os.path.isdir(p) and re.fullmatch(r'[0-9a-f]{20}', d):
                # only remove when nobody holds its use lock
                try:
                    lf = open(os.path.join(p, '.use.lock'), 'w')
                    fcntl.flock(lf, fcntl.LOCK_EX | fcntl.LOCK_NB)
                except OSError:
                    continue
                shutil.rmtree(p, ignore_errors=True)
                lf.close()

_use = None
def hold_tree():
    """shared lock held for the life of the process: tree is in use"""
    global _use
    if _use: return
    os.makedirs(root(), exist_ok=True)
    _use = open(os.path.join(root(), '.use.lock'), 'w')
    fcntl.flock(_use, fcntl.LOCK_SH)

# ------------------------------------------------------------------ export
def ensure_export():
    gc_other_trees(); hold_tree()
    src = os.path.join(root(), 'src')
    with Lock(os.path.join(root(), '.export.lock')):
        if os.path.exists(os.path.join(src, '.exported')):
            return src
        t = time.time()
        shutil.rmtree(src, ignore_errors=True)
        os.makedirs(src)
        for f in repo_files():
            s = os.path.join(REPO, f); d = os.path.join(src, f)
            if not os.path.lexists(s): continue
            os.makedirs(os.path.dirname(d), exist_ok=True)
            if os.path.islink(s): os.symlink(os.readlink(s), d)
            elif os.path.isfile(s): shutil.copy2(s, d)
        run(['sh', 'autogen.sh'], cwd=src, out=os.path.join(root(), 'autogen.log'))
        open(os.path.join(src, '.exported'), 'w').write(tree_hash())
        log('exported %s in %.0fs' % (tree_hash(), time.time() - t))
    return src

# ------------------------------------------------------------------ cpu flags
_cpuflags = None
def host_flags():
    global _cpuflags
    if _cpuflags is None:
        _cpuflags = set()
        for l in open('/proc/cpuinfo'):
            if l.startswith('flags'):
                _cpuflags = set(l.split(':', 1)[1].split()); break
    return _cpuflags

MARCH_NEEDS = {  # features gcc -march=<x> may emit into C code -> cpuinfo flag names
    'core2': ['ssse3'], 'penryn': ['sse4_1'], 'nehalem': ['sse4_2', 'popcnt'],
    'westmere': ['sse4_2', 'popcnt', 'pclmulqdq'], 'sandybridge': ['avx'],
    'ivybridge': ['avx', 'f16c', 'rdrand'], 'haswell': ['avx2', 'bmi2', 'fma', 'movbe'],
    'haswellavx': ['avx2', 'bmi2', 'fma', 'movbe'], 'broadwell': ['avx2', 'bmi2', 'adx', 'fma', 'rdseed'],
    'skylake': ['avx2', 'bmi2', 'adx', 'fma', 'clflushopt', 'xsavec'],
    'skylakeavx': ['avx2', 'bmi2', 'adx', 'fma', 'clflushopt', 'xsavec'],
    'atom': ['ssse3', 'movbe'], 'netburst': ['sse3'], 'nano': ['ssse3'],
}
def host_supports_march(cpu):
    need = MARCH_NEEDS.get(cpu)
    if need is None: return False   # AMD families: never keep -march
    return all(f in host_flags() for f in need)

# ------------------------------------------------------------------ variants
def vdir(name):
    return os.path.join(root(), name)

def ensure_variant(name, jobs=None):
    src = ensure_export()
    V = variants()[name]
    b = vdir(name)
    jobs = jobs or NCPU
    with Lock(os.path.join(root(), '.%s.lock' % name)):
        if os.path.exists(os.path.join(b, '.built')):
            return b
        t = time.time()
        shutil.rmtree(b, ignore_errors=True)
        os.makedirs(b)
        cflags = V.get('cflags')
        if cflags == '__cpu__':
            cflags = None if host_supports_march(V['cpu']) else '-O2'
        args = [os.path.join(src, 'configure'), '--disable-shared', 'CPPFLAGS=-D' + GUARD] + V['conf']
        if cflags is not None: args += ['CC=gcc', 'CFLAGS=' + cflags]
        if V.get('cxxflags'): args += ['CXX=g++', 'CXXFLAGS=' + V['cxxflags']]
        if V.get('ldflags'): args += ['LDFLAGS=' + V['ldflags']]
        run(args, cwd=b, out=os.path.join(b, 'configure.out'))
        tgt = []
        # MAKEINFO=true: the info manual is written into the shared source directory (concurrent variant builds would race)
        run(['make', '-j%d' % jobs, 'MAKEINFO=true'] + tgt, cwd=b, out=os.path.join(b, 'make.out'))
        if not os.path.exists(os.path.join(b, '.libs', 'libmpir.a')):
            raise BuildError('no libmpir.a for ' + name)
        # record effective CFLAGS
        cf = ''
        for l in open(os.path.join(b, 'Makefile')):
            if l.startswith('CFLAGS ='): cf = l.split('=', 1)[1].strip(); break
        json.dump({'cflags': cf, 'conf': V['conf']}, open(os.path.join(b, '.built'), 'w'))
        log('built %s in %.0fs (CFLAGS=%s)' % (name, time.time() - t, cf))
    return b

def variant_cflags(name):
    b = ensure_variant(name)
    return json.load(open(os.path.join(b, '.built')))['cflags']

def ensure_variants(names):
    names = list(dict.fromkeys(names))
    todo = [n for n in names if not os.path.exists(os.path.join(vdir(n), '.built'))]
    ensure_export()
    if todo:
        k = min(len(todo), 8)
        jobs = max(2, (NCPU + k - 1) // k + 1)
        with ThreadPoolExecutor(k) as ex:
            list(ex.map(lambda n: ensure_variant(n, jobs), todo))
    return {n: vdir(n) for n in names}

# ------------------------------------------------------------------ drivers
def san_flags(name):
    if name.startswith('asan') or name == 'cxx-asan': return ASAN_CFLAGS
    if name.startswith('tsan'): return TSAN_CFLAGS
    return '-O1 -g'

def ensure_driver(name, prog='drv', extra_src=(), extra_flags=()):
    """compile /verif/drv/<prog>.c (+extra) against variant `name`; returns binary path"""
    b = ensure_variant(name)
    src = os.path.join(root(), 'src')
    srcs = [os.path.join(VERIF, 'drv', prog + '.c')] + [os.path.join(VERIF, 'drv', s) for s in extra_src]
    deps = srcs + [os.path.join(VERIF, 'drv', f) for f in os.listdir(os.path.join(VERIF, 'drv'))
                   if f.endswith(('.h', '.inc'))]
    h = hashlib.sha256()
    for d in sorted(set(deps)):
        h.update(open(d, 'rb').read())
    h.update(' '.join(extra_flags).encode())
    tag = h.hexdigest()[:12]
    out = os.path.join(b, '%s-%s' % (prog, tag))
    with Lock(os.path.join(root(), '.%s.%s.lock' % (name, prog))):
        if os.path.exists(out): return out
        V = variants()[name]
        cmd = ['gcc'] + san_flags(name).split() + ['-std=gnu11', '-D_GNU_SOURCE', '-DHAVE_CONFIG_H', '-D' + GUARD,
               '-DVARIANT="%s"' % name, '-I' + b, '-I' + src, '-I' + os.path.join(VERIF, 'drv')] + list(extra_flags) + srcs + \
              [os.path.join(b, '.libs', 'libmpir.a'), '-lpthread', '-lm', '-ldl', '-o', out + '.tmp',
               '-Wl,--wrap=malloc,--wrap=calloc,--wrap=realloc,--wrap=free',
               '-Wl,-Map=' + out + '.map']
        if V.get('ldflags') or name in ('plain', 'fat', 'tsan', 'tsan-fat'):
            cmd.append('-no-pie')
        if 'enable-fat' in ' '.join(V['conf']) and '-no-pie' not in cmd: cmd.append('-no-pie')
        run(cmd, out=out + '.log')
        os.rename(out + '.tmp', out)
        # drop older drivers of this prog
        for f in os.listdir(b):
            if f.startswith(prog + '-') and not f.startswith('%s-%s' % (prog, tag)):
                try: os.remove(os.path.join(b, f))
                except OSError: pass
    return out

def mparam(name):
    """thresholds of the variant's gmp-mparam.h as a dict"""
    b = ensure_variant(name)
    p = os.path.join(b, 'gmp-mparam.h')
    d = {}
    for l in open(os.path.realpath(p), errors='replace'):
        m = re.match(r'\s*#define\s+(\w+)\s+(-?\d+)', l)
        if m: d[m.group(1)] = int(m.group(2))
    return d

def clean():
    shutil.rmtree(SCRATCH, ignore_errors=True)

if __name__ == '__main__':
    if sys.argv[1:] == ['--clean']:
        clean()
    else:
        names = sys.argv[1:] or ['asan', 'plain']
        print(tree_hash())
        print(ensure_variants(names))
