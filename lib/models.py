"""Exact reference models (Python big integers), independent of MPIR and tests/ref*.c.
`selftest()` cross-checks each model against a second route."""
import math, sys
from fractions import Fraction
sys.set_int_max_str_digits(0)
B = 1 << 64
M = B - 1

def sgn(x): return (x > 0) - (x < 0)

# ---- division
def tdiv(n, d):
    q = abs(n) // abs(d) * (sgn(n) * sgn(d)); return q, n - q * d
def fdiv(n, d):
    return divmod(n, d)
def cdiv(n, d):
    q, r = divmod(n, d)
    return (q, r) if r == 0 else (q + 1, r - d)

# ---- gcdext with the manual's normalisation
def xgcd_min(a, b):
    g = math.gcd(a, b)
    if a == 0 and b == 0: return 0, None, None
    if abs(a) == abs(b): return g, 0, sgn(b)
    if b == 0: return g, sgn(a), 0
    if a == 0: return g, 0, sgn(b)
    A, Bb = a // g, b // g
    s = pow(A, -1, abs(Bb)) if abs(Bb) != 1 else 0
    best = None
    for sc in (s, s - abs(Bb)):
        t = (g - a * sc) // b
        assert a * sc + b * t == g
        if best is None or (abs(sc), abs(t)) < (abs(best[0]), abs(best[1])): best = (sc, t)
    return g, best[0], best[1]

def kron(a, n):
    if n == 0: return 1 if abs(a) == 1 else 0
    res = 1
    if n < 0:
        n = -n
        if a < 0: res = -res
    v = 0
    while n % 2 == 0: n //= 2; v += 1
    if v:
        if a % 2 == 0: return 0
        if v % 2 and a % 8 in (3, 5): res = -res
    a %= n
    while a:
        while a % 2 == 0:
            a //= 2
            if n % 8 in (3, 5): res = -res
        a, n = n, a
        if a % 4 == 3 and n % 4 == 3: res = -res
        a %= n
    return res if n == 1 else 0

def iroot(u, k):
    """floor(u^(1/k)) for u >= 0, k >= 1"""
    if u < 2 or k == 1: return u
    if k >= u.bit_length(): return 1
    x = 1 << ((u.bit_length() + k - 1) // k)
    while True:
        y = ((k - 1) * x + u // x ** (k - 1)) // k
        if y >= x: break
        x = y
    while x ** k > u: x -= 1
    while (x + 1) ** k <= u: x += 1
    return x

def perfpow(u):
    if u in (0, 1, -1): return True
    a = abs(u)
    for k in range(2, a.bit_length() + 1):
        if u < 0 and k % 2 == 0: continue
        rt = iroot(a, k)
        if rt ** k == a: return True
    return False

SM = [2, 3, 5, 7, 11, 13, 17, 19, 23, 29, 31, 37, 41]
PSI13 = 3317044064679887385961981
def isprime64(n):
    """deterministic below psi_13 = 3317044064679887385961981 (first 13 prime bases; Sorenson-Webster 2015).
    Callers must not rely on it at or above that bound."""
    assert n < PSI13, 'isprime64 is only deterministic below psi_13'
    if n < 2: return False
    for q in SM:
        if n % q == 0: return n == q
    d = n - 1; s = 0
    while d % 2 == 0: d //= 2; s += 1
    for a in SM:
        x = pow(a, d, n)
        if x in (1, n - 1): continue
        for _ in range(s - 1):
            x = x * x % n
            if x == n - 1: break
        else: return False
    return True

AL_LOW = "0123456789abcdefghijklmnopqrstuvwxyz"
AL_UP = "0123456789ABCDEFGHIJKLMNOPQRSTUVWXYZ"
AL_62 = "0123456789ABCDEFGHIJKLMNOPQRSTUVWXYZabcdefghijklmnopqrstuvwxyz"
def alphabet(b):
    return AL_LOW if 2 <= b <= 36 else (AL_UP if b < 0 else AL_62)

def digits_small(x, b):
    al = alphabet(b); b = abs(b); s = []; a = abs(x)
    if a == 0: return "0"
    while a: a, d = divmod(a, b); s.append(al[d])
    return ("-" if x < 0 else "") + ''.join(reversed(s))

def _dc_digits(a, b, al, powcache):
    # divide and conquer: returns digit string without leading zeros (a>0)
    if a < b ** 40:
        s = []
        while a: a, d = divmod(a, b); s.append(al[d])
        return ''.join(reversed(s))
    # choose k = power of two digits below half
    lim = (a.bit_length() - 1) / (math.log2(b) * (1 + 1e-12))
    k = 1
    while k * 2 <= lim: k *= 2      # b^k <= 2^(bitlen-1) <= a
    p = powcache.get(k)
    if p is None: p = powcache[k] = b ** k
    hi, lo = divmod(a, p)
    h = _dc_digits(hi, b, al, powcache) if hi else ''
    l = _dc_digits(lo, b, al, powcache) if lo else ''
    return h + l.rjust(k, al[0]) if h else l

def digits(x, b):
    """digit string of x in base b (2..62 or -2..-36) with MPIR's alphabets"""
    if abs(x) < (1 << 4096): return digits_small(x, b)
    al = alphabet(b); bb = abs(b)
    if bb & (bb - 1) == 0:
        k = bb.bit_length() - 1; a = abs(x); s = []
        n = (a.bit_length() + k - 1) // k
        mask = bb - 1
        if k == 4:
            s = '%x' % a
            s = s if b > 0 and b <= 36 else s.upper()
            return ('-' if x < 0 else '') + s
        for i in range(n - 1, -1, -1): s.append(al[(a >> (i * k)) & mask])
        return ('-' if x < 0 else '') + ''.join(s)
    return ('-' if x < 0 else '') + _dc_digits(abs(x), bb, al, {})

def digit_value(c, base):
    """value of character c as MPIR's input functions read it in `base` (2..62), or None"""
    if '0' <= c <= '9': v = ord(c) - 48
    elif 'A' <= c <= 'Z': v = ord(c) - 55
    elif 'a' <= c <= 'z': v = ord(c) - 87 if base <= 36 else ord(c) - 61
    else: return None
    return v if v < base else None

def parse_digits(s, base):
    """value of a non-empty digit string (no sign/prefix/space), or None"""
    if not s: return None
    v = 0
    if base <= 36:
        try:
            # fast path via int()
            if all(digit_value(c, base) is not None for c in s): return int(s, base)
            return None
        except ValueError:
            return None
    for c in s:
        d = digit_value(c, base)
        if d is None: return None
        v = v * base + d
    return v

# ---- doubles
def trunc_d(x):
    """integer x truncated toward zero to a double (inf on overflow)"""
    if x == 0: return 0.0
    a = abs(x); n = a.bit_length()
    if n > 53: a = (a >> (n - 53)) << (n - 53)
    try: d = float(a)
    except OverflowError: d = math.inf
    return -d if x < 0 else d

def trunc_frac_d(fr):
    """Fraction truncated toward zero to a double, with subnormals and overflow->inf"""
    if fr == 0: return 0.0
    neg = fr < 0; fr = abs(fr)
    n, d = fr.numerator, fr.denominator
    e = n.bit_length() - d.bit_length()
    # find e with 2^e <= fr < 2^(e+1)
    if (n << max(0, -e)) < (d << max(0, e)): e -= 1
    if e > 1023: return -math.inf if neg else math.inf
    prec = 53 if e >= -1022 else 53 - (-1022 - e)
    if prec <= 0: return -0.0 if neg else 0.0
    sh = prec - 1 - e                 # mantissa = floor(fr * 2^sh)
    m = (n << sh) // d if sh >= 0 else n // (d << -sh)
    v = math.ldexp(m, -sh)
    return -v if neg else v

def fib(n):
    def fd(n):
        if n == 0: return (0, 1)
        a, b = fd(n >> 1)
        c = a * (2 * b - a); d = a * a + b * b
        return (d, c + d) if n & 1 else (c, d)
    return fd(n)[0]
def lucas(n):
    return 2 if n == 0 else fib(n - 1) + fib(n + 1)

def binom(n, k):
    """binomial for any integer n, k >= 0 (manual: bin(-n,k) = (-1)^k bin(n+k-1,k))"""
    if k < 0: return 0
    if n >= 0: return math.comb(n, k)
    return (-1) ** k * math.comb(-n + k - 1, k)

def primes_upto(n):
    if n < 2: return []
    s = bytearray([1]) * (n + 1); s[0] = s[1] = 0
    for i in range(2, int(n ** 0.5) + 1):
        if s[i]: s[i * i::i] = bytearray(len(s[i * i::i]))
    return [i for i in range(n + 1) if s[i]]

def prodtree(xs):
    """product of a list of ints by a balanced tree (quasi-linear for large results)"""
    xs = list(xs)
    if not xs: return 1
    while len(xs) > 1:
        xs = [xs[i] * xs[i + 1] if i + 1 < len(xs) else xs[i] for i in range(0, len(xs), 2)]
    return xs[0]

def comb_by_primes(n, k, primes=None):
    """C(n,k) from Legendre's formula over the primes up to n (independent of math.comb; fast for huge n, k)"""
    if k < 0 or k > n: return 0
    ps = primes if primes is not None else primes_upto(n)
    fs = []
    for p in ps:
        if p > n: break
        e = 0; q = p
        while q <= n:
            e += n // q - k // q - (n - k) // q; q *= p
        if e: fs.append(p ** e)
    return prodtree(fs)

def mpf_value(prec, exp, size, mag):
    """exact rational value of an mpf dump"""
    if size == 0: return Fraction(0)
    v = Fraction(mag) * Fraction(2) ** (64 * (exp - abs(size)))
    return -v if size < 0 else v

def selftest():
    assert prodtree(range(1, 30)) == math.factorial(29) and comb_by_primes(1000, 377) == math.comb(1000, 377) and comb_by_primes(67, 0) == 1 and comb_by_primes(4099, 4098) == 4099

    import random
    r = random.Random(7)
    for _ in range(3000):
        a = r.randint(-10 ** 6, 10 ** 6); b = r.randint(-300, 300)
        if b:
            for f in (tdiv, fdiv, cdiv):
                q, rr = f(a, b); assert q * b + rr == a and abs(rr) < abs(b)
            assert tdiv(a, b)[0] == int(Fraction(a, b)) and fdiv(a, b)[0] == math.floor(Fraction(a, b)) and cdiv(a, b)[0] == math.ceil(Fraction(a, b))
        g, s, t = xgcd_min(a, b)
        if s is not None: assert a * s + b * t == g == math.gcd(a, b)
    # kronecker against Euler's criterion for odd primes
    for p in (3, 5, 7, 11, 13, 101, 1009):
        for a in range(-30, 60):
            e = pow(a % p, (p - 1) // 2, p); e = -1 if e == p - 1 else e
            assert kron(a, p) == e, (a, p)
    # multiplicativity incl. even / negative lower argument
    for _ in range(2000):
        a = r.randint(-50, 50); m = r.randint(-40, 40); n = r.randint(-40, 40)
        if m and n: assert kron(a, m * n) == kron(a, m) * kron(a, n), (a, m, n)
    for _ in range(2000):
        u = r.getrandbits(r.randint(1, 300)); k = r.randint(1, 12)
        x = iroot(u, k); assert x ** k <= u < (x + 1) ** k
    assert perfpow(64) and perfpow(-27) and not perfpow(-64 + 1) and perfpow(-64) and not perfpow(-16) and not perfpow(12)
    try:
        import sympy
        for n in list(range(0, 3000)) + [r.getrandbits(r.randint(10, 64)) for _ in range(500)] + [3215031751, 341550071728321, 3825123056546413051, 2 ** 61 - 1, 318665857834031151167461, 399165290221 * 798330580441]:
            assert isprime64(n) == sympy.isprime(n), n
    except ImportError:
        sm = set(primes_upto(3000))
        for n in range(3000): assert isprime64(n) == (n in sm)
    for _ in range(500):
        x = r.getrandbits(r.randint(1, 9000)) * r.choice([1, -1])
        for b in (2, 3, 7, 10, 16, 36, 37, 62, -2, -16, -36, 8, 32):
            s = digits(x, b); assert s == digits_small(x, b)
            if abs(b) <= 36: assert int(s, abs(b)) == x
            v = parse_digits(s.lstrip('-'), abs(b)) if b > 0 else parse_digits(s.lstrip('-').lower(), abs(b))
            assert v == abs(x), (x, b)
    big = r.getrandbits(40000)
    for b in (10, 7, 62, 4, 8): assert digits(big, b) == digits_small(big, b)
    for _ in range(3000):
        x = r.getrandbits(r.randint(1, 1100)) * r.choice([1, -1])
        d = trunc_d(x)
        if not math.isinf(d): assert abs(int(d)) <= abs(x) and trunc_frac_d(Fraction(x)) == d
        n = r.getrandbits(r.randint(1, 200)) + 1; dd = r.getrandbits(r.randint(1, 1300)) + 1
        f = Fraction(n, dd); v = trunc_frac_d(f)
        assert Fraction(v) <= f and (v == 0.0 or Fraction(math.nextafter(v, math.inf)) > f), (n, dd, v)
    assert [fib(i) for i in range(10)] == [0, 1, 1, 2, 3, 5, 8, 13, 21, 34] and lucas(5) == 11
    assert binom(-3, 2) == 6 and binom(5, 2) == 10 and binom(-1, 3) == -1
    return True

if __name__ == '__main__':
    selftest(); print('models selftest ok')
