"""Orchestrator shared by all property checks: workers, batching, crash isolation,
known-findings matching, replay files, evidence."""
import os, sys, json, time, random, hashlib, re, traceback, multiprocessing, signal

sys.set_int_max_str_digits(0)
HERE = os.path.dirname(os.path.abspath(__file__))
VERIF = os.path.dirname(HERE)
sys.path.insert(0, HERE)
import build, rpc

DEFAULT_SEED = 20260928
BATCH_CMDS = 1500
NWORK = int(os.environ.get('VERIF_WORKERS', '16'))

def seed():
    try:
        return int(os.environ.get('VERIF_SEED', DEFAULT_SEED))
    except ValueError:
        return DEFAULT_SEED

class Case:
    __slots__ = ('cmds', 'check', 'ncalls', 'tag', 'trivial', 'spec', 'timeout', 'dyn')
    def __init__(self, cmds, check, ncalls=1, tag=None, trivial=False, spec=None, timeout=None):
        self.cmds = cmds; self.check = check; self.ncalls = ncalls; self.tag = tag
        self.trivial = trivial; self.spec = spec; self.timeout = timeout
        self.dyn = {}     # a check may set dyn['calls'] (measured number of judged calls) and dyn['tags']

class Env:
    """what a property module may know about the variant under test"""
    def __init__(self, variant, tier):
        self.variant = variant; self.tier = tier
        self.th = build.mparam(variant)
        self.asan = variant.startswith('asan') or variant == 'cxx-asan'
        self.exe = None

class HarnessError(Exception):
    pass

# ------------------------------------------------------------------ JSON helpers (big ints)
def jsonable(x, abbreviate=False):
    if isinstance(x, bool) or x is None: return x
    if isinstance(x, int):
        if abs(x) < (1 << 63): return x
        h = rpc.hx(x)
        if abbreviate and len(h) > 80:
            return {'hex': h[:24] + '...' + h[-24:], 'bits': abs(x).bit_length()}
        return {'hex': h}
    if isinstance(x, float):
        return {'float': x.hex()}
    if isinstance(x, (bytes, bytearray)):
        b = bytes(x)
        if abbreviate and len(b) > 120: return {'bytes': b[:50].hex() + '...' + b[-20:].hex(), 'len': len(b)}
        return {'bytes': b.hex()}
    if isinstance(x, str):
        if abbreviate and len(x) > 200: return x[:120] + '...(%d chars)...' % len(x) + x[-40:]
        return x
    if isinstance(x, (list, tuple)): return [jsonable(y, abbreviate) for y in x]
    if isinstance(x, dict): return {str(k): jsonable(v, abbreviate) for k, v in x.items()}
    if hasattr(x, 'numerator') and hasattr(x, 'denominator'):
        return {'frac': [jsonable(x.numerator, abbreviate), jsonable(x.denominator, abbreviate)]}
    return repr(x)

def unjson(x):
    if isinstance(x, dict):
        if set(x) == {'hex'}: return int(x['hex'], 16)
        if set(x) == {'float'}: return float.fromhex(x['float'])
        if set(x) == {'bytes'}: return bytes.fromhex(x['bytes'])
        if set(x) == {'frac'}:
            from fractions import Fraction
            return Fraction(unjson(x['frac'][0]), unjson(x['frac'][1]))
        return {k: unjson(v) for k, v in x.items()}
    if isinstance(x, list): return [unjson(y) for y in x]
    return x

# ------------------------------------------------------------------ sanitizer report -> key
_FRAME = re.compile(r'#\d+ 0x[0-9a-f]+ in (\S+) (\S+)')
def report_key(stderr, crashline, fn):
    kind = None
    m = re.search(r'ERROR: AddressSanitizer: ([\w-]+)', stderr)
    if m: kind = 'asan:' + m.group(1)
    if not kind:
        m = re.search(r'(\S+:\d+):\d+: runtime error: ([^\n]+)', stderr)
        # only the last UBSan line before death matters if UBSan was fatal; keep generic otherwise
    if not kind and 'exceeds limit' in stderr:
        m = re.search(r'allocation request of (\d+) bytes exceeds limit', stderr)
        return 'alloc-limit:%s' % fn
    if not kind and 'GNU MP: Cannot allocate memory' in stderr:
        return 'alloc-fail:%s' % fn
    if not kind:
        m = re.search(r'sig=(\d+)', crashline or '')
        kind = 'crash:sig%s' % (m.group(1) if m else '?')
        if 'runtime error' in stderr and m and m.group(1) == '6':
            pass
    frames = []
    for m in _FRAME.finditer(stderr):
        f, loc = m.group(1), m.group(2)
        if 'drv.c' in loc or 'extra.inc' in loc or 'sweep' in loc or 'libasan' in loc or 'libc' in loc or f.startswith('__interceptor') or f.startswith('__asan') or f in ('main', '_start', 'on_signal'):
            continue
        f = re.sub(r'^__gmp[nzqf]?_', '', f)
        if f not in frames: frames.append(f)
        if len(frames) >= 3: break
    return '%s:%s:%s' % (kind, fn, '<'.join(frames))

def cmd_fn(cmd):
    t = cmd.split()
    return t[1] if len(t) > 1 and t[0] == 'c' else (t[0] if t else '?')

# ------------------------------------------------------------------ worker
class Worker:
    def __init__(self, mod, tier, variant, wid, nw, sd):
        self.mod = mod; self.tier = tier; self.variant = variant; self.wid = wid; self.nw = nw
        self.env = Env(variant, tier)
        self.env.exe = build.ensure_driver(variant, *getattr(mod, 'DRIVER', ('drv',)))
        self.rng = random.Random((sd * 1000003 + wid * 7919) & 0xffffffffffff)
        self.drv = None
        self.res = dict(evaluations=0, cases=0, tags=set(), nontrivial=0, failures=[], samples=[], ops={},
                        notes=[], harness_errors=[], unrepro=0, stat={})
        self.drv_kwargs = dict(getattr(mod, 'DRV_KWARGS', {}))

    def newdrv(self, sync=False):
        return rpc.Drv(self.env.exe, sync=sync, **self.drv_kwargs)

    def fail(self, key, detail, case, replies=None, stderr=None):
        fs = self.res['failures']
        if sum(1 for f in fs if f['key'] == key) >= 3 or len(fs) >= 60:
            self.res.setdefault('suppressed', 0); self.res['suppressed'] += 1
            return
        fs.append(dict(key=key, detail=str(detail)[:2000], variant=self.variant, spec=jsonable(case.spec),
                       cmds=[c if len(c) < 100000 else c[:100000] + '...' for c in case.cmds],
                       replies=[r[:4000] for r in (replies or [])], stderr=(stderr or '')[-6000:]))

    def judge(self, case, replies):
        """monitor messages first, then the property's oracle"""
        r = self.res
        for cmd, rep in zip(case.cmds, replies):
            if rep.startswith('?ERR'):
                r['harness_errors'].append('%s -> %s' % (cmd[:200], rep[:200]))
                return
            if '!' in rep:
                for t in rep.split():
                    if t.startswith('!'):
                        kind = re.sub(r'\(.*', '', t[1:])
                        kind = re.sub(r':[ZQFNDL]\d+', '', kind)
                        self.fail('monitor:%s:%s' % (kind, cmd_fn(cmd)), t, case, replies)
        try:
            out = case.check(replies) or []
        except Exception as e:
            r['harness_errors'].append('check raised %s: %s spec=%s' % (type(e).__name__, e, str(case.spec)[:300]) + traceback.format_exc()[-600:])
            return
        for key, detail in out:
            self.fail(key, detail, case, replies)

    def account(self, case):
        r = self.res
        r['evaluations'] += case.dyn.get('calls', case.ncalls); r['cases'] += 1
        if case.tag is not None and not case.trivial:
            r['tags'].add(hash(case.tag) & 0xffffffffffff)
        for t in case.dyn.get('tags', ()):
            r['tags'].add(hash(t) & 0xffffffffffff)
        for k, v in case.dyn.get('info', {}).items():
            r.setdefault('info', {})[k] = v
        if not case.trivial: r['nontrivial'] += 1
        for c in case.cmds:
            if c.startswith('c '):
                f = cmd_fn(c); r['ops'][f] = r['ops'].get(f, 0) + 1
            elif c.startswith(('pf ', 'sf ', 'export ', 'import ')):
                t = c.split(None, 2); f = {'pf': 'gmp_' + t[1], 'sf': 'gmp_' + t[1], 'export': 'mpz_export', 'import': 'mpz_import'}[t[0]]
                r['ops'][f] = r['ops'].get(f, 0) + 1
        for f, k in case.dyn.get('ops', {}).items():       # calls made inside the driver (kernel sweeps)
            r['ops'][f] = r['ops'].get(f, 0) + k
        if len(r['samples']) < 3 or (len(r['samples']) < 8 and self.rng.random() < 0.002):
            r['samples'].append(jsonable(case.spec, abbreviate=True))

    def run_single(self, case, tries=1):
        """run one case in a fresh synchronous driver; returns ('ok', replies) or ('died', DrvDied)"""
        d = self.newdrv(sync=True)
        try:
            rep = d.batch(case.cmds, timeout=case.timeout or 180)
            return 'ok', rep
        except rpc.DrvDied as e:
            return 'died', e
        finally:
            d.close()

    def flush(self, pending):
        if not pending: return
        cmds = []
        for c in pending: cmds.extend(c.cmds)
        if self.drv is None or not self.drv.alive:
            self.drv = self.newdrv()
        try:
            tmo = max([300] + [c.timeout or 0 for c in pending])
            replies = self.drv.batch(cmds, timeout=tmo)
        except rpc.DrvDied as e:
            self.drv.close(); self.drv = None
            self.isolate(pending, e)
            return
        i = 0
        for c in pending:
            n = len(c.cmds)
            self.judge(c, replies[i:i + n]); self.account(c); i += n

    def isolate(self, pending, e):
        """the driver died during this batch: find the case, confirm by re-running it alone"""
        # judge the cases that completed
        i = 0; idx = None
        for k, c in enumerate(pending):
            n = len(c.cmds)
            if i + n <= e.nreplies and (e.crashline or e.hang or True) and i + n <= len(e.replies):
                self.judge(c, e.replies[i:i + n]); self.account(c); i += n
            else:
                idx = k; break
        if idx is None: idx = len(pending) - 1
        rest = pending[idx:]
        confirmed = False
        # try the candidate first, then every remaining case individually
        for k, c in enumerate(rest):
            st, out = self.run_single(c)
            if st == 'ok':
                self.judge(c, out); self.account(c)
                continue
            if out.hang:
                st2, out2 = self.run_single(c)
                if st2 == 'ok':
                    self.res['notes'].append('one-off hang not reproduced'); self.judge(c, out2); self.account(c); continue
                if out2.hang:
                    self.fail('hang:%s' % cmd_fn(c.cmds[min(out2.nreplies, len(c.cmds) - 1)]), 'no reply within timeout (twice)', c, out2.replies, out2.stderr)
                    self.account(c); confirmed = True; continue
                out = out2
            culprit = c.cmds[min(out.nreplies, len(c.cmds) - 1)]
            key = report_key(out.stderr, out.crashline, cmd_fn(culprit))
            self.fail(key, (out.crashline or 'rc=%s' % out.rc) + ' | ' + culprit[:300], c, out.replies, out.stderr)
            self.account(c); confirmed = True
        if not confirmed:
            self.res['unrepro'] += 1
            self.res['notes'].append('driver died in a batch (rc=%s, %s) but no single case reproduces it; stderr tail: %s'
                                     % (e.rc, e.crashline, e.stderr[-400:]))

    def run(self):
        t0 = time.time()
        pending = []; n = 0
        try:
            for spec in self.mod.specs(self.rng, self.tier, self.wid, self.nw, self.env):
                case = self.mod.build(spec, self.env)
                if case is None: continue
                case.spec = spec
                pending.append(case); n += len(case.cmds)
                if n >= BATCH_CMDS:
                    self.flush(pending); pending = []; n = 0
                if len(self.res['harness_errors']) > 5: break
            self.flush(pending)
            if self.drv is not None and self.drv.alive:
                try:
                    st = self.drv.batch(['stat', 'hits', 'evts'])
                    self.res['stat'] = dict(x.split('=') for x in st[0].split()[1:])
                    self.res['hits'] = {int(a): int(b) for a, b in (x.split(':') for x in st[1].split()[1:])}
                    self.res['evts'] = sorted({tuple(int(y) for y in x.split(':')) for x in st[2].split()[1:]})
                except Exception:
                    pass
        except Exception as ex:
            self.res['harness_errors'].append('worker %d: %s\n%s' % (self.wid, ex, traceback.format_exc()[-1500:]))
        finally:
            if self.drv is not None: self.drv.close()
        self.res['wall'] = time.time() - t0
        return self.res

def _worker_entry(a):
    modname, tier, variant, wid, nw, sd = a
    signal.signal(signal.SIGINT, signal.SIG_IGN)
    mod = __import__(modname)
    return Worker(mod, tier, variant, wid, nw, sd).run()

# ------------------------------------------------------------------ known findings
def load_known():
    p = os.path.join(VERIF, 'known-findings.txt')
    open_, fixed = [], []
    if os.path.exists(p):
        for l in open(p):
            l = l.strip()
            if not l or l.startswith('#'): continue
            m = re.match(r'open:\s+property=(\S+)\s+key=(\S+)\s*(.*)', l)
            if m: open_.append((m.group(1), m.group(2), m.group(3)))
            elif l.startswith('fixed:'): fixed.append(l)
    return open_, fixed

def match_known(pid, key, known):
    for p, k, text in known:
        if p == pid and k == key: return text
    return None

# ------------------------------------------------------------------ main entry
def write_evidence(pid, ev):
    # runs against deliberately broken scratch trees (tools/tryclone.sh, tryseed.sh) divert their evidence so that /verif/evidence
    # always describes the last run on /repo's own tree
    edir = os.environ.get('VERIF_EVIDENCE_DIR') or os.path.join(VERIF, 'evidence')
    os.makedirs(edir, exist_ok=True)
    p = os.path.join(edir, pid + '.json')
    with open(p + '.tmp', 'w') as f: json.dump(ev, f, indent=1)
    os.replace(p + '.tmp', p)

def finish(pid, tier, level, failures, coverage, assumptions, t0, harness_errors=(), inconclusive=None):
    """print verdict lines, write replays and evidence, exit"""
    known, _ = load_known()
    seen_known = {}; viol = {}
    for f in failures:
        txt = match_known(pid, f['key'], known)
        if txt is not None: seen_known.setdefault(f['key'], txt)
        else: viol.setdefault(f['key'], f)
    for k, txt in seen_known.items():
        print('KNOWN-FINDING: property=%s key=%s %s' % (pid, k, txt))
    os.makedirs(os.path.join(VERIF, 'replays'), exist_ok=True)
    for k, f in viol.items():
        h = hashlib.sha256(k.encode()).hexdigest()[:10]
        rp = os.path.join(VERIF, 'replays', '%s-%s.json' % (pid, h))
        json.dump(dict(property=pid, tier=tier, seed=seed(), **f), open(rp, 'w'), indent=1)
        print('VIOLATION property=%s replay=%s' % (pid, rp))
        print('  key=%s variant=%s detail=%s' % (k, f.get('variant'), f.get('detail', '')[:400]))
    coverage = dict(coverage)
    coverage['known_findings_seen'] = sorted(seen_known)
    coverage['violation_keys'] = sorted(viol)
    ev = dict(property_id=pid, tier=tier, seed=seed(), level=level, coverage=coverage,
              assumptions=list(assumptions), wall_s=round(time.time() - t0, 1), violations=len(viol))
    if harness_errors: ev['coverage']['harness_errors'] = list(harness_errors)[:10]
    if inconclusive: ev['coverage']['inconclusive'] = inconclusive
    write_evidence(pid, ev)
    if viol:
        sys.exit(1)
    if harness_errors or inconclusive:
        print('INCONCLUSIVE property=%s reason=%s' % (pid, (inconclusive or str(list(harness_errors)[0]))[:500]))
        sys.exit(2)
    print('OK property=%s tier=%s evaluations=%s distinct_nontrivial=%s wall=%.0fs' %
          (pid, tier, coverage.get('evaluations'), coverage.get('distinct_nontrivial'), time.time() - t0))
    sys.exit(0)

def run_workers(modname, tier, variants, nw=None):
    nw = nw or NWORK
    sd = seed()
    build.ensure_variants(variants)
    mod = __import__(modname)
    for v in variants:
        build.ensure_driver(v, *getattr(mod, 'DRIVER', ('drv',)))
    jobs = [(modname, tier, v, w, nw, sd) for v in variants for w in range(nw)]
    ctx = multiprocessing.get_context('fork')
    with ctx.Pool(min(NWORK, len(jobs))) as pool:
        results = pool.map(_worker_entry, jobs, chunksize=1)
    return jobs, results

def aggregate(jobs, results):
    agg = dict(evaluations=0, cases=0, tags=set(), failures=[], samples=[], ops={}, notes=[], harness_errors=[],
               unrepro=0, per_variant={}, hits={}, stat={})
    for (modname, tier, v, w, nw, sd), r in zip(jobs, results):
        agg['evaluations'] += r['evaluations']; agg['cases'] += r['cases']
        agg['tags'] |= r['tags']; agg['failures'] += r['failures']
        if w == 0 or len(agg['samples']) < 6: agg['samples'] += r['samples'][:2]
        for k, n in r['ops'].items(): agg['ops'][k] = agg['ops'].get(k, 0) + n
        agg['notes'] += r['notes']; agg['harness_errors'] += r['harness_errors']; agg['unrepro'] += r['unrepro']
        pv = agg['per_variant'].setdefault(v, dict(evaluations=0, cases=0, wall_max=0))
        pv['evaluations'] += r['evaluations']; pv['cases'] += r['cases']; pv['wall_max'] = max(pv['wall_max'], round(r.get('wall', 0), 1))
        for k, n in r.get('hits', {}).items(): agg['hits'][k] = agg['hits'].get(k, 0) + n
        agg.setdefault('evts', set()).update(tuple(e) for e in r.get('evts', []))
        for k, n in r.get('stat', {}).items():
            try: agg['stat'][k] = agg['stat'].get(k, 0) + int(n)
            except ValueError: pass
    return agg

def main(modname, argv=None):
    """standard entry for an RPC-style property module"""
    import argparse
    ap = argparse.ArgumentParser()
    ap.add_argument('--tier', default=os.environ.get('VERIF_TIER', 'quick'))
    ap.add_argument('--replay')
    ap.add_argument('--variants')
    a = ap.parse_args(argv)
    mod = __import__(modname)
    pid = mod.PID
    t0 = time.time()
    if a.replay:
        return replay(mod, a.replay)
    variants = a.variants.split(',') if a.variants else mod.VARIANTS[a.tier]
    try:
        jobs, results = run_workers(modname, a.tier, variants)
    except build.BuildError as e:
        print('INCONCLUSIVE property=%s reason=build failed: %s' % (pid, e))
        ev = dict(property_id=pid, tier=a.tier, seed=seed(), level=mod.LEVEL,
                  coverage=dict(evaluations=0, distinct_nontrivial=0, rule=mod.RULE, samples=[], inconclusive='build failed: %s' % e),
                  assumptions=[], wall_s=round(time.time() - t0, 1), violations=0)
        write_evidence(pid, ev)
        sys.exit(2)
    agg = aggregate(jobs, results)
    failures = agg['failures']
    cov = dict(evaluations=agg['evaluations'], cases=agg['cases'], distinct_nontrivial=len(agg['tags']),
               rule=mod.RULE, samples=agg['samples'][:10], variants=variants, per_variant=agg['per_variant'],
               calls_per_function=dict(sorted(agg['ops'].items())), notes=agg['notes'][:10],
               unreproduced_driver_deaths=agg['unrepro'], recorder=agg['stat'], tree=build.tree_hash())
    if agg['hits']: cov['hook_hits'] = {str(k): v for k, v in sorted(agg['hits'].items())}
    if agg.get('evts'): cov['hook_events'] = sorted(agg['evts'])[:400]
    extra_fail = []
    inconc = None
    if hasattr(mod, 'post'):
        # property-specific additions (sweeps, regime requirements)
        try:
            r = mod.post(a.tier, agg, cov)
            if r:
                extra_fail = r.get('failures', []); inconc = r.get('inconclusive')
        except build.BuildError as e:
            inconc = 'build failed: %s' % e
    if agg['evaluations'] == 0 and not inconc:
        inconc = 'no evaluations'
    finish(pid, a.tier, mod.LEVEL, failures + extra_fail, cov, getattr(mod, 'ASSUMPTIONS', []), t0,
           harness_errors=agg['harness_errors'], inconclusive=inconc)

def replay(mod, path):
    """re-run a recorded violation against the current tree"""
    j = json.load(open(path))
    spec = unjson(j['spec']); variant = j['variant']
    build.ensure_variants([variant])
    w = Worker(mod, j.get('tier', 'quick'), variant, 0, 1, j.get('seed', DEFAULT_SEED))
    case = mod.build(spec, w.env); case.spec = spec
    st, out = w.run_single(case)
    if st == 'ok':
        w.judge(case, out)
    else:
        culprit = case.cmds[min(out.nreplies, len(case.cmds) - 1)]
        w.fail(report_key(out.stderr, out.crashline, cmd_fn(culprit)), out.crashline, case, out.replies, out.stderr)
    fs = w.res['failures']
    if w.res['harness_errors']:
        print('INCONCLUSIVE property=%s reason=%s' % (mod.PID, w.res['harness_errors'][0])); sys.exit(2)
    if fs:
        for f in fs: print('VIOLATION property=%s replay=%s\n  key=%s detail=%s' % (mod.PID, path, f['key'], f['detail'][:400]))
        sys.exit(1)
    print('OK replay passes on the current tree'); sys.exit(0)
