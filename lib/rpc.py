"""Talk to one mpir_drv process (line protocol)."""
import os, subprocess, tempfile, select, time, signal, sys

sys.set_int_max_str_digits(0)

class DrvDied(Exception):
    def __init__(self, nreplies, replies, crashline, stderr, rc, hang=False):
        self.nreplies = nreplies; self.replies = replies; self.crashline = crashline
        self.stderr = stderr; self.rc = rc; self.hang = hang
        Exception.__init__(self, 'driver died after %d replies rc=%s hang=%s: %s' % (nreplies, rc, hang, crashline))

SAN_ENV = {
    'ASAN_OPTIONS': 'detect_leaks=0:abort_on_error=1:halt_on_error=1:allocator_may_return_null=1:detect_stack_use_after_return=0:max_malloc_fill_size=0:quarantine_size_mb=16',
    'UBSAN_OPTIONS': 'print_stacktrace=1',
}

class Drv:
    def __init__(self, exe, sync=False, args=(), env=None, timeout=300, stderr_dir=None, vlimit_kb=None):
        self.exe = exe; self.timeout = timeout
        e = dict(os.environ); e.update(SAN_ENV)
        if env: e.update(env)
        d = stderr_dir or os.path.dirname(exe)
        self.errf = tempfile.NamedTemporaryFile(prefix='drv-err-', dir=d, delete=False)
        cmd = [exe] + (['--sync'] if sync else []) + list(args)
        pre = None
        if vlimit_kb:
            import resource
            def pre():
                resource.setrlimit(resource.RLIMIT_AS, (vlimit_kb * 1024, vlimit_kb * 1024))
        self.p = subprocess.Popen(cmd, stdin=subprocess.PIPE, stdout=subprocess.PIPE, stderr=self.errf,
                                  env=e, bufsize=0, preexec_fn=pre)
        self.rbuf = b''
        self.alive = True

    def _stderr(self):
        try:
            self.errf.flush()
            with open(self.errf.name, 'rb') as f:
                b = f.read()
                if len(b) > 16000: b = b[:8000] + b'\n...[cut]...\n' + b[-8000:]
                return b.decode('utf-8', 'replace')
        except Exception:
            return ''

    def close(self):
        if self.alive:
            try:
                self.p.stdin.write(b'X\n'); self.p.stdin.close()
            except Exception:
                pass
            try:
                self.p.wait(timeout=10)
            except Exception:
                self.p.kill(); self.p.wait()
            self.alive = False
        try:
            self.p.stdout.close()
        except Exception:
            pass
        try:
            self.errf.close(); os.unlink(self.errf.name)
        except Exception:
            pass

    def kill(self):
        try:
            self.p.kill(); self.p.wait()
        except Exception:
            pass
        self.alive = False

    def batch(self, cmds, timeout=None, want=None):
        """send commands, return one reply line (str) per command (or `want` lines)"""
        if not cmds: return []
        timeout = timeout or self.timeout
        data = ('\n'.join(cmds) + '\nF\n').encode()
        want = len(cmds) if want is None else want
        lines = []
        fdw = self.p.stdin.fileno(); fdr = self.p.stdout.fileno()
        off = 0; deadline = time.time() + timeout
        os.set_blocking(fdw, False)
        buf = self.rbuf
        try:
            while len(lines) < want:
                now = time.time()
                if now > deadline:
                    self.kill()
                    raise DrvDied(len(lines), lines, '', self._stderr(), None, hang=True)
                wl = [fdw] if off < len(data) else []
                r, w, _ = select.select([fdr], wl, [], min(5.0, deadline - now))
                if w:
                    try:
                        off += os.write(fdw, data[off:off + (1 << 20)])
                    except BlockingIOError:
                        pass
                    except BrokenPipeError:
                        off = len(data)
                if r:
                    chunk = os.read(fdr, 1 << 22)
                    if not chunk:
                        rc = self.p.wait(); self.alive = False
                        crash = ''
                        if lines and lines[-1].startswith('!CRASH'):
                            crash = lines.pop()
                        raise DrvDied(len(lines), lines, crash, self._stderr(), rc)
                    buf += chunk
                    if b'\n' in chunk:
                        parts = buf.split(b'\n')
                        buf = parts.pop()
                        lines.extend(x.decode('ascii', 'replace') for x in parts)
        finally:
            self.rbuf = buf
        for k, x in enumerate(lines):
            if x.startswith('!CRASH'):
                # the driver's crash handler spoke: it is dying
                try:
                    rc = self.p.wait(timeout=30)
                except Exception:
                    self.p.kill(); rc = self.p.wait()
                self.alive = False
                raise DrvDied(k, lines[:k], x, self._stderr(), rc)
        return lines[:want]

def hx(x):
    return ('-%x' % -x) if x < 0 else ('%x' % x)

def I(s):
    return 0 if s == '-' else int(s, 16)

def shex(b):
    """hex-encode a bytes/str for the 's' token"""
    if isinstance(b, str): b = b.encode('latin-1')
    return 's' + b.hex()

def unhexs(s):
    return b'' if s == '-' else bytes.fromhex(s)

def parse_f(tok):
    """F<prec>,<exp>,<size>,<hexmag> -> (prec_limbs, exp, size, mag)"""
    assert tok[0] == 'F', tok
    p, e, s, h = tok[1:].split(',')
    return int(p), int(e), int(s), int(h, 16)

def split_reply(line):
    """'= a b c !MSG..' -> (tokens, monitor_msgs)"""
    toks = line.split()
    mon = [t[1:] for t in toks if t.startswith('!')]
    vals = [t for t in toks[1:] if not t.startswith('!')] if toks and toks[0] == '=' else [t for t in toks if not t.startswith('!')]
    return vals, mon
