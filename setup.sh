#!/bin/bash
# MANIFEST.setup_cmd: offline; model self-tests, then prebuild every variant the quick checks use for /repo's current tree.
set -e
cd "$(dirname "$0")"
python3 lib/models.py
python3 - <<'PY'
import sys
sys.path.insert(0, 'lib'); sys.path.insert(0, 'lib/props')
import build, c14, c15, c04, c05
vs = ['asan', 'plain', 'none', 'asan-tdbg', 'asan-reent', 'tsan', 'tsan-fat', 'cxx-asan'] + c14.Q_VARIANTS
vs = list(dict.fromkeys(vs))
build.ensure_variants(vs)
for v in vs:
    if v != 'cxx-asan': build.ensure_driver(v)
print('setup ok: %d variants for tree %s' % (len(vs), build.tree_hash()))
PY
