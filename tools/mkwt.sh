#!/bin/bash
# usage: tools/mkwt.sh <name>... : scratch worktrees /tmp/wt/<name> of /repo's HEAD, pre-built by copying the template /tmp/wt/base
# (template: git worktree + autogen + ./configure --disable-shared --enable-cxx + make + make check)
for n in "$@"; do
  d=/tmp/wt/$n
  git -C /repo worktree remove --force $d 2>/dev/null; rm -rf $d
  git -C /repo worktree add -f --detach $d HEAD >/dev/null 2>&1 || { echo "worktree add failed $n"; continue; }
  rsync -a --exclude=.git /tmp/wt/base/ $d/
  /verif/tools/fixwt.sh $n >/dev/null
  git -C $d checkout -- . && make -C $d -j4 >/dev/null 2>&1   # template may be older than HEAD: restore HEAD sources, rebuild what differs
  git -C $d status --short | grep -v '^??' | head -3
  echo "ready $d"
done
