#!/bin/bash
# usage: tools/mkwt.sh <name>... : scratch worktrees /tmp/wt/<name> of /repo's HEAD, pre-built by copying the template /tmp/wt/base
# (template: git worktree + autogen + ./configure --disable-shared --enable-cxx + make + make check)
for n in "$@"; do
  d=/tmp/wt/$n
  git -C /repo worktree remove --force $d 2>/dev/null; rm -rf $d
  git -C /repo worktree add -f --detach $d HEAD >/dev/null 2>&1 || { echo "worktree add failed $n"; continue; }
  rsync -a --exclude=.git /tmp/wt/base/ $d/
  /verif/tools/fixwt.sh $n >/dev/null
  git -C $d status --short | grep -v '^??' | head -3
  echo "ready $d"
done
