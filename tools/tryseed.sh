#!/bin/bash
# usage: tools/tryseed.sh <patch.diff> <tier> <check id>...   : apply a seeded change to /repo, run checks, undo
set -u
patch=$(readlink -f $1); tier=$2; shift 2
cd /verif
if ! git -C /repo diff --quiet; then echo "repo has uncommitted changes"; exit 2; fi
git -C /repo apply "$patch" || { echo "patch does not apply"; exit 2; }
for id in "$@"; do
  echo "=== $id on $(basename $(dirname $patch))"
  VERIF_EVIDENCE_DIR=/var/tmp/mpir-verif-evidence-scratch VERIF_KEEP_TREES=1 timeout 3600 ./check $id --tier $tier 2>&1 | grep -v "^\[build\]" | cut -c1-300 | tail -8
  echo "exit=${PIPESTATUS[0]}"
done
git -C /repo checkout -- .
git -C /repo status --short | grep -v '^??' | head -3
