#!/bin/bash
# usage: tools/fixwt.sh <name>... : a worktree copied from the template /tmp/wt/base still names the template's absolute path
# (tests/libtests.la dependency_libs, abs_top_builddir ...), so its tests would link the TEMPLATE's libmpir.a.  Rewrite the paths
# (mtimes preserved) and delete the test executables so that `make check` relinks them against the worktree's own library.
for n in "$@"; do
  d=/tmp/wt/$n
  grep -rl "/tmp/wt/base" --include='*.la' --include='Makefile' --include='*.lai' --include='config.status' --include='libtool' $d 2>/dev/null | while read f; do
    cp -p "$f" "$f.mt"; sed -i "s#/tmp/wt/base#$d#g" "$f"; touch -r "$f.mt" "$f"; rm -f "$f.mt"; done
  find $d/tests -type f -perm -u+x ! -name '*.sh' ! -name '*.la' -exec sh -c 'head -c4 "$1" | grep -q ELF && rm -f "$1"' _ {} \;
  echo "fixed $d: $(grep -rl '/tmp/wt/base' $d --include=Makefile --include='*.la' 2>/dev/null | wc -l) files still name the template"
done
