#!/usr/bin/env python3
"""Mutation probe of the checks themselves (development aid, not a registered check).

Picks random relational / off-by-one mutation sites in the source files that belong to a property, applies one at a time to a private
clone of /repo's HEAD, runs that property's quick check on the asan variant only and logs CAUGHT / SURVIVED / BUILD-FAILED.  Survivors are
leads: either an equivalent mutant, a change outside the property, or a gap in the check.  usage: mutate.py <n> <seed> [Cxx ...]"""
import os, sys, re, random, subprocess, shutil, glob, time
sys.path.insert(0, '/verif/lib')
FILES = {
 'C01': ['mpz/mul.c', 'mpz/mul_i.h', 'mpz/aorsmul.c', 'mpz/aorsmul_i.c', 'mpn/generic/mul.c', 'mpn/generic/mul_n.c'],
 'C02': ['mpz/tdiv_q.c', 'mpz/tdiv_qr.c', 'mpz/tdiv_r.c', 'mpz/fdiv_q.c', 'mpz/fdiv_qr.c', 'mpz/fdiv_r.c', 'mpz/cdiv_q.c', 'mpz/cdiv_qr.c', 'mpz/cdiv_r.c', 'mpz/cfdiv_q_2exp.c', 'mpz/cfdiv_r_2exp.c', 'mpz/tdiv_q_2exp.c', 'mpz/tdiv_r_2exp.c',
         'mpz/fdiv_q_ui.c', 'mpz/fdiv_r_ui.c', 'mpz/fdiv_qr_ui.c', 'mpz/fdiv_ui.c', 'mpz/cdiv_q_ui.c', 'mpz/cdiv_r_ui.c', 'mpz/cdiv_qr_ui.c', 'mpz/cdiv_ui.c', 'mpz/tdiv_q_ui.c', 'mpz/tdiv_r_ui.c', 'mpz/tdiv_qr_ui.c', 'mpz/tdiv_ui.c',
         'mpz/mod.c', 'mpz/divexact.c', 'mpz/dive_ui.c', 'mpz/divis.c', 'mpz/divis_ui.c', 'mpz/divis_2exp.c', 'mpz/cong.c', 'mpz/cong_ui.c', 'mpz/cong_2exp.c', 'mpn/generic/tdiv_qr.c', 'mpn/generic/tdiv_q.c', 'mpn/generic/divrem.c'],
 'C03': ['mpz/aors.h', 'mpz/aors_ui.h', 'mpz/ui_sub.c', 'mpz/neg.c', 'mpz/abs.c', 'mpz/mul_2exp.c', 'mpz/set.c', 'mpz/swap.c'],
 'C06': ['mpz/get_str.c', 'mpz/set_str.c', 'mpz/inp_str.c', 'mpz/out_str.c', 'mpz/sizeinbase.c', 'mpq/get_str.c', 'mpq/set_str.c', 'mpn/generic/get_str.c', 'mpn/generic/set_str.c'],
 'C07': ['mpz/gcd.c', 'mpz/gcd_ui.c', 'mpz/gcdext.c', 'mpz/lcm.c', 'mpz/lcm_ui.c', 'mpz/invert.c', 'mpz/jacobi.c', 'mpz/kronsz.c', 'mpz/kronuz.c', 'mpz/kronzs.c', 'mpz/kronzu.c', 'mpn/generic/gcd_1.c', 'mpn/generic/gcdext_1.c', 'mpn/generic/jacobi_base.c', 'mpn/generic/jacobi_2.c'],
 'C08': ['mpz/powm.c', 'mpz/powm_ui.c', 'mpz/n_pow_ui.c', 'mpn/generic/powm.c', 'mpn/generic/powlo.c'],
 'C09': ['mpz/sqrt.c', 'mpz/sqrtrem.c', 'mpz/root.c', 'mpz/nthroot.c', 'mpz/rootrem.c', 'mpz/perfsqr.c', 'mpz/perfpow.c', 'mpn/generic/sqrtrem.c', 'mpn/generic/rootrem.c', 'mpn/generic/perfsqr.c'],
 'C10': ['mpz/and.c', 'mpz/ior.c', 'mpz/xor.c', 'mpz/com.c', 'mpz/setbit.c', 'mpz/clrbit.c', 'mpz/combit.c', 'mpz/tstbit.c', 'mpz/scan0.c', 'mpz/scan1.c', 'mpz/popcount.c', 'mpz/hamdist.c'],
 'C11': ['mpz/cmp.c', 'mpz/cmp_d.c', 'mpz/cmp_si.c', 'mpz/cmp_ui.c', 'mpz/cmpabs.c', 'mpz/cmpabs_d.c', 'mpz/cmpabs_ui.c', 'mpz/get_d.c', 'mpz/get_d_2exp.c', 'mpz/get_si.c', 'mpz/get_ui.c', 'mpz/set_d.c', 'mpz/fits_s.h', 'mpz/fits_uint.c', 'mpz/fits_ulong.c', 'mpz/fits_ushort.c',
         'mpq/cmp.c', 'mpq/cmp_ui.c', 'mpq/cmp_si.c', 'mpq/equal.c', 'mpq/get_d.c', 'mpf/cmp.c', 'mpf/cmp_d.c', 'mpf/cmp_si.c', 'mpf/cmp_ui.c', 'mpf/get_d.c', 'mpf/get_d_2exp.c', 'mpf/get_si.c', 'mpf/get_ui.c', 'mpf/fits_s.h', 'mpf/fits_u.h', 'mpn/generic/get_d.c'],
 'C12': ['mpq/aors.c', 'mpq/mul.c', 'mpq/div.c', 'mpq/inv.c', 'mpq/neg.c', 'mpq/abs.c', 'mpq/md_2exp.c', 'mpq/canonicalize.c', 'mpq/set_d.c', 'mpq/set_f.c', 'mpq/set_z.c', 'mpq/set_si.c', 'mpq/set_ui.c'],
 'C13': ['mpf/add.c', 'mpf/sub.c', 'mpf/mul.c', 'mpf/div.c', 'mpf/sqrt.c', 'mpf/add_ui.c', 'mpf/sub_ui.c', 'mpf/ui_sub.c', 'mpf/mul_ui.c', 'mpf/div_ui.c', 'mpf/ui_div.c', 'mpf/sqrt_ui.c', 'mpf/set_q.c', 'mpf/set_z.c', 'mpf/set_d.c', 'mpf/set_str.c', 'mpf/get_str.c',
         'mpf/trunc.c', 'mpf/ceilfloor.c', 'mpf/neg.c', 'mpf/abs.c', 'mpf/mul_2exp.c', 'mpf/div_2exp.c', 'mpf/int_p.c', 'mpf/set.c'],
 'C16': ['mpz/fac_ui.c', 'mpz/2fac_ui.c', 'mpz/mfac_uiui.c', 'mpz/primorial_ui.c', 'mpz/oddfac_1.c', 'mpz/bin_ui.c', 'mpz/bin_uiui.c', 'mpz/fib_ui.c', 'mpz/fib2_ui.c', 'mpz/lucnum_ui.c', 'mpz/lucnum2_ui.c', 'mpz/remove.c', 'mpz/pprime_p.c', 'mpz/probable_prime_p.c',
         'mpz/likely_prime_p.c', 'mpz/millerrabin.c', 'mpz/nextprime.c', 'mpz/next_prime_candidate.c', 'mpn/generic/fib2_ui.c'],
 'C17': ['mpz/export.c', 'mpz/import.c', 'mpz/inp_raw.c', 'mpz/out_raw.c', 'mpq/inp_str.c', 'mpq/out_str.c', 'mpf/inp_str.c', 'mpf/out_str.c', 'mpz/inp_str.c', 'mpz/out_str.c'],
 'C18': ['printf/doprnt.c', 'printf/doprnti.c', 'printf/doprntf.c', 'printf/snprntffuns.c', 'printf/asprntffuns.c', 'printf/sprintffuns.c', 'printf/printffuns.c', 'scanf/doscan.c', 'scanf/sscanffuns.c'],
 'C19': ['randlc2x.c', 'randmt.c', 'randmts.c', 'randiset.c', 'randbui.c', 'randmui.c', 'randsd.c', 'randsdui.c', 'mpz/urandomb.c', 'mpz/urandomm.c', 'mpz/rrandomb.c', 'mpf/urandomb.c', 'mpn/generic/urandomb.c', 'mpn/generic/urandomm.c', 'mpn/generic/randomb.c', 'mpn/generic/rrandom.c'],
}
OPS = [(r' < ', ' <= '), (r' <= ', ' < '), (r' > ', ' >= '), (r' >= ', ' > '), (r' \+ 1\b', ' + 2'), (r' - 1\b', ' - 0'), (r' == 0\b', ' != 0'), (r' != 0\b', ' == 0'), (r'\+\+', '--'), (r' && ', ' || ')]
def sites(repo, pid):
    out = []
    for f in FILES[pid]:
        p = os.path.join(repo, f)
        if not os.path.exists(p): continue
        incomment = False
        for i, l in enumerate(open(p, errors='replace').read().split('\n')):
            t = l.strip()
            if '/*' in t and '*/' not in t: incomment = True
            if incomment:
                if '*/' in t: incomment = False
                continue
            if not t or t.startswith(('#', '/*', '*', '//')) or 'ASSERT' in t or 'TRACE' in t or 'printf' in t or 'for (' in t: continue
            for k, (a, b) in enumerate(OPS):
                for m in re.finditer(a, l): out.append((f, i, k, m.start()))
    return out
def main():
    n = int(sys.argv[1]); seed = int(sys.argv[2]); pids = sys.argv[3:] or sorted(FILES)
    r = random.Random(seed); base = '/var/tmp/mutbase'
    shutil.rmtree(base, ignore_errors=True); subprocess.run(['git', 'clone', '-q', '/repo', base], check=True)
    for it in range(n):
        pid = r.choice(pids); ss = sites(base, pid)
        if not ss: continue
        f, i, k, pos = r.choice(ss); a, b = OPS[k]
        cl = '/var/tmp/mutclone'; shutil.rmtree(cl, ignore_errors=True); subprocess.run(['git', 'clone', '-q', base, cl], check=True)
        p = os.path.join(cl, f); lines = open(p, errors='replace').read().split('\n'); old = lines[i]
        lines[i] = old[:pos] + re.sub(a, b, old[pos:], count=1); open(p, 'w').write('\n'.join(lines))
        env = dict(os.environ, VERIF_REPO=cl, VERIF_KEEP_TREES='1', VERIF_EVIDENCE_DIR='/var/tmp/mpir-verif-evidence-scratch')
        t0 = time.time()
        cp = subprocess.run(['nice', '-n', '10', 'timeout', '1500', '/verif/check', pid, '--tier', 'quick', '--variants', 'asan'], env=env, stdout=subprocess.PIPE, stderr=subprocess.STDOUT, text=True)
        out = cp.stdout
        if 'build failed' in out: verdict = 'BUILD-FAILED'
        elif 'VIOLATION' in out: verdict = 'CAUGHT ' + (re.search(r'key=(\S+)', out).group(1) if re.search(r'key=(\S+)', out) else '')
        elif cp.returncode == 0: verdict = 'SURVIVED'
        else: verdict = 'INCONCLUSIVE rc=%d %s' % (cp.returncode, out.strip().split('\n')[-1][:150])
        print('%s %s %s:%d op%d [%s] -> [%s] (%.0fs)' % (verdict, pid, f, i + 1, k, old.strip()[:90], lines[i].strip()[:90], time.time() - t0), flush=True)
        # drop the mutant's build tree
        th = subprocess.run(['python3', '-c', 'import sys; sys.path.insert(0,"/verif/lib"); import build; print(build.root())'], env=env, stdout=subprocess.PIPE, text=True).stdout.strip().split('\n')[-1]
        if th.startswith('/var/tmp/mpir-verif/') and len(th) > 25: shutil.rmtree(th, ignore_errors=True)
    shutil.rmtree('/var/tmp/mutclone', ignore_errors=True); shutil.rmtree(base, ignore_errors=True)
main()
