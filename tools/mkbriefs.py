#!/usr/bin/env python3
"""usage: tools/mkbriefs.py <round> <Cxx>... : briefs /tmp/wt/briefs/<round>-cxx.md for seeding sub-agents (property text + worktree only;
the files named under 'avoid' are the ones earlier seeds already used, read from seeded/*/patch.diff)"""
import json, sys, os, re, glob
props = {json.loads(l)['id']: json.loads(l) for l in open('/verif/properties.jsonl')}
used = {}
for d in glob.glob('/verif/seeded/A*/'):
    try: pid = json.load(open(d + 'meta.json'))['breaks_property']
    except Exception: continue
    for l in open(d + 'patch.diff'):
        if l.startswith('+++ b/'): used.setdefault(pid, set()).add(l[6:].strip())
tmpl = open('/verif/tools/brief-example.md').read()
# generic template: cut the C15 property block and note out of the example
head, rest = tmpl.split('## The property', 1)
_, tail = rest.split('## Your task', 1)
tail = re.sub(r'\nNote for this property:.*?\n\n', '\n', tail, flags=re.S)
tail = tail.replace('* `git stash`, `make -j6`, rebuild demo, run it: exits 0; then `git stash pop` and `make -j6` again;',
                    '* `git diff > my.patch; git apply -R my.patch`, `make -j6`, rebuild demo, run it: exits 0; then `git apply my.patch` and `make -j6` again (NEVER use `git stash`: the stash is shared by all worktrees of the repository). There is no header dependency tracking: after editing a .h file `touch` the .c files that include it before `make`;')
extra = {
 'C14': "Note for this property: the pre-built tree is the default configuration (plain x86_64: generic C plus the top-level mpn/x86_64/*.as[m] kernels). Your change should live in something the default build does NOT exercise (a CPU-specific kernel directory under mpn/x86_64/<cpu>/, a code path only some per-CPU gmp-mparam.h tables enable, the fat dispatcher, tal-reent.c/tal-debug.c, or code only active under --enable-assert). To demonstrate it, copy the tracked sources to a sibling directory /tmp/wt/%(wt)s-alt (rsync -a --exclude=.git, then `make distclean` there) and configure that copy with e.g. `--build=k8-unknown-linux-gnu` / `--build=sandybridge-unknown-linux-gnu` / `--enable-fat` / `--enable-assert` / `--enable-alloca=debug` plus --disable-shared; link demo.c against that copy's .libs/libmpir.a. The host CPU is an Intel one with AVX2/BMI2/ADX, and the AMD k8/k10/bulldozer kernels also execute on it. Say in notes.txt exactly which configure line the demonstration needs. Remove the -alt directory when you are done.\n",
 'C15': "Note for this property: the demonstration may use pthreads (gcc -pthread); a demo that shows wrong values or a crash in a reasonable number of repetitions is fine, but say how often it fires.\n",
 'C20': "Note for this property: the tree is configured with --enable-cxx; the C++ header is mpirxx.h and the library .libs/libmpirxx.a; write demo.cc and build it with g++ -I. demo.cc .libs/libmpirxx.a .libs/libmpir.a.\n",
}
rnd = sys.argv[1]
os.makedirs('/tmp/wt/briefs', exist_ok=True)
for pid in sys.argv[2:]:
    p = props[pid]; wt = '%s-%s' % (rnd, pid.lower())
    prop = '\n\n**%s**\n\n%s\n\nScope: %s\n\nWhy the existing tests cannot settle it: %s\n\n' % (p['title'], p['statement'], p['quantifier']['text'], p['why_tests_cant'])
    t = tail
    t = re.sub(r'do NOT put the change in these files \(already used by others\): [^\n]*\.', 'do NOT put the change in these files (already used by others): %s.' % ' '.join(sorted(used.get(pid, []))), t)
    if pid in extra: t = t.replace('\n## Deliverables', '\n' + extra[pid] % {'wt': wt} + '\n## Deliverables', 1)
    out = (head + '## The property' + prop + '## Your task' + t).replace('r7-c15', wt)
    open('/tmp/wt/briefs/%s.md' % wt, 'w').write(out)
    print('/tmp/wt/briefs/%s.md' % wt)
