#!/bin/bash
# usage: tools/tryclone.sh <patch.diff> <tier> <check id>...  : like tryseed.sh but on a private clone of /repo's HEAD
# (VERIF_REPO), so that /repo itself is not touched and several changes can be tried at once.  The clone is removed afterwards.
set -u
patch=$(readlink -f $1); tier=$2; shift 2
cl=/var/tmp/repo-seed-$$
git clone -q /repo $cl || exit 2
git -C $cl apply "$patch" || { echo "patch does not apply"; rm -rf $cl; exit 2; }
cd /verif
for id in "$@"; do
  echo "=== $id on $(basename $(dirname $patch))"
  VERIF_REPO=$cl VERIF_EVIDENCE_DIR=/var/tmp/mpir-verif-evidence-scratch VERIF_KEEP_TREES=1 timeout 3600 ./check $id --tier $tier 2>&1 | grep -v "^\[build\]" | cut -c1-300 | tail -8
  echo "exit=${PIPESTATUS[0]}"
done
rm -rf $cl
