#!/usr/bin/env python3
"""write /verif/MANIFEST.json from the per-property modules"""
import json, os, sys, subprocess
V = os.path.dirname(os.path.dirname(os.path.abspath(__file__)))
sys.path.insert(0, os.path.join(V, 'lib')); sys.path.insert(0, os.path.join(V, 'lib', 'props'))
TECH = {
 'C01': 'sanitizer build (ASan+UBSan) + exact big-integer oracle over threshold-steered shapes',
 'C02': 'sanitizer build + exact divmod oracle over adversarial quotient-correction constructors',
 'C03': 'in-process kernel sweep with fenced operands against a limb reference + big-integer oracle',
 'C04': 'runtime monitors over random call histories: ASan/UBSan, recording allocator, bypass detector, well-formedness, three-way allocation differential',
 'C05': 'aliased-vs-distinct differential execution with input-digest monitor under ASan (alloca=debug)',
 'C06': 'sanitizer build + exact digit/parse model, round-trip monitor, fenced string buffers',
 'C07': 'sanitizer build + gcd/Bezout/Kronecker oracles over continued-fraction constructed operands',
 'C08': 'sanitizer build + Python pow oracle over modulus/exponent shape classes',
 'C09': 'sanitizer build + verified integer-root oracle on neighbours of perfect powers',
 'C10': 'sanitizer build + two\'s-complement oracle, kernel sweep of mpn logic ops',
 'C11': 'exact comparison/truncation oracle on -O1/-O2/generic-C builds (UB shows per optimisation level)',
 'C12': 'sanitizer build + Fraction oracle (canonical by construction) over gcd-structure constructors',
 'C13': 'sanitizer build + exact rational error-bound oracle and mpf format monitor',
 'C14': 'cross-build differential (20 CPU paths, fat, alloca modes, assert vs generic C) with oracles, kernel digests, cpuvec audit',
 'C15': 'ThreadSanitizer + threaded-vs-serial reply comparison + static data-segment monitor',
 'C16': 'sanitizer build + number-theoretic oracles (deterministic Miller-Rabin, certified primes/composites)',
 'C17': 'fault injection on fopencookie streams: every truncation point and every write-failure position, with recorder and well-formedness monitors',
 'C18': 'in-process differential against the C library printf/scanf + layout model, fenced snprintf buffers',
 'C19': 'range/sequence-equality monitors and fixed-threshold statistical batteries over recorded draws',
 'C20': 'generated C++ programs under ASan/UBSan: expression templates vs step-by-step C functions vs Python model',
}
NOTE = {
 'C14': 'kernels that need ISA extensions the host lacks (3DNow!, XOP, SSE4a, TBM) cannot run here; only x86_64',
 'C15': 'only schedules that occurred; accesses inside assembly are invisible to TSan',
}
def main():
    props = [json.loads(l) for l in open(os.path.join(V, 'properties.jsonl'))]
    checks = []
    for p in props:
        pid = p['id']; mod = __import__(pid.lower())
        checks.append({
            'property_id': pid,
            'quick_cmd': './check %s --tier quick' % pid,
            'thorough_cmd': './check %s --tier thorough' % pid,
            'evidence_file': '/verif/evidence/%s.json' % pid,
            'replay_cmd_template': './check %s --replay {path}' % pid,
            'engine': 'mpir_drv+python-oracle' if pid != 'C20' else 'generated-c++',
            'level_claimed': {'category': mod.LEVEL,
                              'text': 'Held on the executions observed: real library built from the current tree under sanitizers/monitors, driven by the workload described in the evidence rule; '
                                      'no claim beyond the explored inputs, sizes, variants and schedules. ' + mod.RULE[:600],
                              'design_ref': 'DESIGN.md section 5 (%s), section 10 (as built)' % pid},
            'level_note': 'trusted base: ' + '; '.join(getattr(mod, 'ASSUMPTIONS', [])) + ('; ' + NOTE[pid] if pid in NOTE else ''),
            'technique': TECH[pid],
        })
    hooks = subprocess.run(['git', '-C', '/repo', 'log', '--format=%h %s', '--grep=^verif hook'], stdout=subprocess.PIPE, text=True).stdout.strip().splitlines()
    m = {
        'version': 1,
        'setup_cmd': './setup.sh',
        'hooks': {'guard': 'MPIR_VERIF', 'enable': 'configure CPPFLAGS=-DMPIR_VERIF (done by lib/build.py for every variant); receivers are defined by drv/drv.c',
                  'baseline_off_cmd': 'cd /repo && make -j16 check', 'source_commits': [h.split()[0] for h in hooks], 'add_only': True},
        'engines': [{'name': 'mpir_drv+python-oracle', 'path': '/verif/drv, /verif/lib', 'serves_properties': [p['id'] for p in props if p['id'] != 'C20'],
                     'kind_free_text': 'C command interpreter linked to each instrumented build variant of libmpir.a (monitors inside) + Python big-integer oracles, 16 worker processes'},
                    {'name': 'generated-c++', 'path': '/verif/lib/props/c20.py', 'serves_properties': ['C20'], 'kind_free_text': 'generated C++ programs compiled with ASan/UBSan against the --enable-cxx build'}],
        'checks': checks,
        'notes': 'All checks rebuild the needed variants from /repo\'s working tree (cache keyed by a hash of the tree under /var/tmp/mpir-verif). Exit 0 held / 1 VIOLATION / 2 INCONCLUSIVE. Known findings in /verif/known-findings.txt.',
        'not_applicable': [],
    }
    json.dump(m, open(os.path.join(V, 'MANIFEST.json'), 'w'), indent=1)
    print('wrote MANIFEST.json with %d checks' % len(checks))
main()
