#!/bin/bash
# run every seeded change against the checks named in its meta (or given list); log to /var/tmp/seedloop.log
cd /verif
while read -r name checks; do
  [ -z "$name" ] && continue
  echo "##### $name -> $checks"
  tools/tryseed.sh seeded/$name/patch.diff quick $checks 2>&1 | grep -E "^===|VIOLATION|KNOWN|^OK|INCONCLUSIVE|exit=" | cut -c1-220
done
