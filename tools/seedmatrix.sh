#!/bin/bash
# usage: tools/seedmatrix.sh <VERIF_SEED> [pattern]  : every seeded change x the checks its meta.json names, quick tier, under one seed.
# Prints one line per (change, check): CAUGHT / MISSED.  /repo must be clean and is restored after each change.
sd=$1; pat=${2:-}
cd /verif
for d in seeded/*$pat*/; do
  n=$(basename $d); [ -f $d/meta.json ] || continue
  ids=$(python3 -c "import json;print(' '.join(json.load(open('$d/meta.json'))['checks_expected_to_catch']))")
  for id in $ids; do
    id=${id:0:3}
    out=$(VERIF_SEED=$sd tools/tryseed.sh $d/patch.diff quick $id 2>&1)
    if echo "$out" | grep -q "^VIOLATION property=$id"; then echo "CAUGHT $n $id seed=$sd: $(echo "$out" | grep -m1 'key=' | cut -c1-150)";
    else echo "MISSED $n $id seed=$sd: $(echo "$out" | tail -2 | tr '\n' ' ' | cut -c1-200)"; fi
  done
done
