#!/bin/bash
# run every quick check under several seeds; print one line per (seed, check)
cd "$(dirname "$0")/.."
for seed in "$@"; do
  for id in C01 C02 C03 C04 C05 C06 C07 C08 C09 C10 C11 C12 C13 C16 C17 C18 C19 C20 C15 C14; do
    s=$(date +%s)
    out=$(VERIF_SEED=$seed timeout 3600 ./check $id --tier quick 2>&1 | grep -v "^\[build" | grep -E "VIOLATION|INCONCLUSIVE|key=|^OK|Traceback" | cut -c1-260 | head -8)
    echo "seed=$seed $id $(( $(date +%s)-s ))s :: $(echo "$out" | tr '\n' ' ')"
  done
done
