#!/bin/bash
# run thorough tiers of the given checks; one line each
cd "$(dirname "$0")/.."
for id in "$@"; do
  s=$(date +%s)
  out=$(timeout 14000 ./check $id --tier thorough 2>&1 | grep -v "^\[build" | grep -E "VIOLATION|INCONCLUSIVE|key=|^OK|Traceback|Error" | cut -c1-300 | head -8)
  echo "thorough $id $(( $(date +%s)-s ))s :: $(echo "$out" | tr '\n' ' ')"
done
