#!/usr/bin/env python3
"""One-off helper: derive a first api.tab from gmp-h.in prototypes (hand-edited afterwards)."""
import re,sys
src=open('/repo/gmp-h.in').read()
src=re.sub(r'/\*.*?\*/','',src,flags=re.S)
TY={'mpz_ptr':'Z','mpz_srcptr':'z','mpq_ptr':'Q','mpq_srcptr':'q','mpf_ptr':'F','mpf_srcptr':'f',
 'gmp_randstate_t':'R','mpir_ui':'u','mpir_si':'s','unsigned long int':'u','unsigned long':'u','long int':'s','long':'s','int':'i','mp_bitcnt_t':'b',
 'double':'d','size_t':'n','mp_size_t':'n','mp_limb_t':'u','mp_ptr':'P','mp_srcptr':'p','__gmp_const char *':'t','char *':'C',
 'uintmax_t':'u','intmax_t':'s','mp_exp_t *':'&','signed long int *':'&','mp_exp_t':'s','mp_limb_signed_t':'s','mp_size_t *':'&','long int *':'&','long *':'&',
 '__gmp_const __gmp_randstate_struct *':'r','void':'', 'mpz_t':'Z','mp_limb_t *':'P'}
RT={'void':'v','int':'i','mpir_ui':'u','mpir_si':'l','unsigned long int':'u','long int':'l','double':'d','size_t':'u','mp_limb_t':'u','mp_size_t':'l','mp_bitcnt_t':'u','char *':'s','mp_limb_signed_t':'l','uintmax_t':'u','intmax_t':'l','mp_srcptr':'p','mp_ptr':'p','mp_exp_t':'l','mp_bitcnt_t':'u','mpz_srcptr':'p'}
out=[];bad=[]
for m in re.finditer(r'__GMP_DECLSPEC\s+([^;(]*?)\b(\w+)\s*\(([^;]*?)\)\s*((?:__GMP_\w+\s*)*);',src):
    ret,name,args=m.group(1).strip(),m.group(2),m.group(3)
    ret=re.sub(r'\s+',' ',ret)
    if not re.match(r'(mpz|mpq|mpf|mpn|gmp_rand|gmp_urand|__gmpz|__gmpn|_mpz)',name): continue
    al=[re.sub(r'\s+',' ',a.strip()) for a in args.split(',')] if args.strip() else []
    sig=''
    ok=ret in RT
    for a in al:
        a=re.sub(r'\b\w+$','',a).strip() if (a not in TY and re.sub(r'\b\w+$','',a).strip() in TY) else a
        if a in TY: sig+=TY[a]
        else: ok=False; sig+='?('+a+')'
    (out if ok else bad).append('%-32s %s %s'%(name,RT.get(ret,'?('+ret+')'),sig or '-'))
print('\n'.join(out)); print('# ---- unparsed'); print('\n'.join('# '+b for b in bad))
