#!/bin/bash
# usage: tools/intake.sh <worktree name under /tmp/wt> <seed dir name> <check id>...
# confirm a sub-agent's change myself (tools/confirm.sh), keep patch + demo + notes under seeded/<name>/, run the named quick checks on a private clone
set -u
wt=/tmp/wt/$1; name=$2; shift 2
cd /verif
log=/var/tmp/intake-$name.log
{
J=6 tools/confirm.sh $wt; rc=$?
echo "confirm rc=$rc"
if [ $rc = 0 ]; then
  mkdir -p seeded/$name
  cp $wt/.seed.patch seeded/$name/patch.diff
  for f in demo.c demo.cc notes.txt; do [ -f $wt/$f ] && cp $wt/$f seeded/$name/; done
  tools/tryclone.sh seeded/$name/patch.diff quick "$@"
fi
} > $log 2>&1
echo "intake $name done: $(grep -E 'CONFIRM: (OK|FAILED)|^VIOLATION|^OK|INCONCLUSIVE|exit=' $log | tr '\n' ' ' | cut -c1-400)"
