#!/bin/bash
# usage: tools/confirm.sh <worktree> [nocheck] : confirm a sub-agent's seeded change in its (built, in-tree configured) worktree.
#   the change is the uncommitted diff of tracked files; demo.c / demo.cc sits in the worktree root.
#   (never git stash: the stash is shared by all worktrees of a repository)
#   1. build with the change, demo must exit non-zero   2. stash, rebuild, demo must exit 0   3. pop, rebuild, make check must pass
set -u
wt=$1; nocheck=${2:-}
cd $wt || exit 2
J=${J:-6}
if [ -f demo.cc ]; then src=demo.cc; cc="g++ -O1 -I. demo.cc .libs/libmpirxx.a .libs/libmpir.a"; else src=demo.c; cc="gcc -O1 -I. demo.c .libs/libmpir.a -lm"; fi
[ -f $src ] || { echo "CONFIRM: no demo"; exit 2; }
git diff --quiet && { echo "CONFIRM: no change in tracked files"; exit 2; }
git diff > .seed.patch
# no header dependency tracking in this build: a changed header must force its users to recompile
touchusers () { for h in $(grep '^+++ b/' .seed.patch | sed 's/^+++ b\///' | grep '\.h$\|\.in$'); do
    case $h in */*) touch $(dirname $h)/*.c 2>/dev/null;; *) find . -name '*.c' -o -name '*.cc' | grep -v '^./tests' | xargs touch;; esac; done; }
touchusers
make -j$J >/dev/null 2>.confirm.err || { echo "CONFIRM: build with change failed"; tail -5 .confirm.err; exit 2; }
$cc -o .demo_with 2>>.confirm.err || { echo "CONFIRM: demo does not compile"; tail -5 .confirm.err; exit 2; }
timeout 300 ./.demo_with > .demo_with.out 2>&1; w=$?
git apply -R .seed.patch || { echo 'CONFIRM: cannot reverse the change'; exit 2; }
touchusers
make -j$J >/dev/null 2>>.confirm.err; b=$?
$cc -o .demo_without 2>>.confirm.err
timeout 300 ./.demo_without > .demo_without.out 2>&1; wo=$?
git apply .seed.patch || { echo 'CONFIRM: cannot re-apply the change'; exit 2; }
touchusers
[ $b = 0 ] || { echo "CONFIRM: build without change failed"; exit 2; }
echo "CONFIRM: demo with change exit=$w ; without change exit=$wo"
[ $w != 0 ] && [ $wo = 0 ] || { echo "CONFIRM: FAILED (demo does not discriminate)"; exit 1; }
[ "$nocheck" = nocheck ] && exit 0
make -j$J >/dev/null 2>>.confirm.err || { echo "CONFIRM: rebuild failed"; exit 2; }
make -j$J -k check > .check.log 2>&1; c=$?
p=$(grep -c '^PASS:' .check.log); f=$(grep -c '^FAIL:' .check.log)
echo "CONFIRM: make check exit=$c PASS=$p FAIL=$f"
[ $c = 0 ] && [ $f = 0 ] && { echo "CONFIRM: OK"; exit 0; }
grep '^FAIL:' .check.log | head
echo "CONFIRM: FAILED (suite notices the change)"; exit 1
