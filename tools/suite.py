#!/usr/bin/env python3
"""Run the repository's own test suite on an export of /repo's working tree with the guard OFF
(configure as the pinned baseline does), in scratch.  Prints pass/fail counts."""
import sys, os, re, subprocess, shutil, glob
sys.path.insert(0, os.path.join(os.path.dirname(os.path.abspath(__file__)), '..', 'lib'))
import build
src = build.ensure_export()
b = os.path.join(build.root(), 'suite')
shutil.rmtree(b, ignore_errors=True); os.makedirs(b)
flags = sys.argv[1:] 
env = dict(os.environ, CFLAGS='-Wno-error', ASAN_OPTIONS='detect_leaks=0')
subprocess.run([os.path.join(src, 'configure'), '--disable-shared'] + flags, cwd=b, env=env, stdout=open(os.path.join(b, 'configure.out'), 'w'), stderr=subprocess.STDOUT, check=True)
subprocess.run(['make', '-j16'], cwd=b, stdout=open(os.path.join(b, 'make.out'), 'w'), stderr=subprocess.STDOUT, check=True)
r = subprocess.run(['make', '-j16', '-k', 'check'], cwd=b, stdout=open(os.path.join(b, 'check.out'), 'w'), stderr=subprocess.STDOUT)
tot = {}
for l in open(os.path.join(b, 'check.out'), errors='replace'):
    m = re.match(r'^(PASS|FAIL|XFAIL|XPASS|SKIP|ERROR): (\S+)', l)
    if m: tot.setdefault(m.group(1), []).append(m.group(2))
print('make check rc=%d' % r.returncode, {k: len(v) for k, v in tot.items()})
for k in ('FAIL', 'ERROR', 'XPASS'):
    if tot.get(k): print(k, tot[k])
shutil.rmtree(b, ignore_errors=True)
sys.exit(0 if r.returncode == 0 and not tot.get('FAIL') and not tot.get('ERROR') else 1)
